(* custommint.BeginBlock (C15): the scheduled inflation entries that are due are
   applied in timestamp order and removed; the latest due entry wins. *)
From Hub Require Import Base.Prelude Base.Arith Model.Types Model.Keeper Model.Handlers Model.Hooks Model.Step.
From Hub Require Import Proofs.Tactics Proofs.Sorting Proofs.Frames.

(* every entry is stored under the key of its own timestamp (InflationKey(Timestamp)) *)
Definition infl_keys_ok (s : state) : Prop :=
  forall k it, inflations s !! k = Some it -> inf_ts it = k.
(* every entry passed GenesisState.Validate *)
Definition infl_valid (s : state) : Prop :=
  forall k it, inflations s !! k = Some it -> mint_params_valid (inf_max it) (inf_min it) (inf_rate it) = true.

Definition due (l : list inflation) (t : time) : list inflation := filter (fun it => inf_ts it <= t) l.

Definition ts_le (a b : inflation) : Prop := inf_ts a <= inf_ts b.

(* mint fields after applying [it] *)
Definition mint_is (s : state) (it : inflation) : Prop :=
  mint_max s = inf_max it /\ mint_min s = inf_min it /\ mint_rate s = inf_rate it /\ mint_inflation s = inf_min it.
Definition mint_same (s s' : state) : Prop :=
  mint_max s' = mint_max s /\ mint_min s' = mint_min s /\ mint_rate s' = mint_rate s /\ mint_inflation s' = mint_inflation s.

Lemma due_nil_of_sorted it l t :
  StronglySorted ts_le (it :: l) -> t < inf_ts it -> due (it :: l) t = [].
Proof.
  intros Hs Ht. apply StronglySorted_inv in Hs as [_ Hall]. unfold due.
  rewrite filter_cons_False by lia.
  induction l as [|x l IH]; [reflexivity|].
  apply Forall_cons in Hall as [Hx Hall]. unfold ts_le in Hx.
  rewrite filter_cons_False by lia. apply IH. exact Hall.
Qed.

(* what the loop computes, on a list sorted by timestamp *)
Lemma mint_loop_spec l : forall s s',
  StronglySorted ts_le l ->
  mint_loop l s = Ok s' ->
  now s' = now s /\
  inflations s' = foldl (fun m it => delete (inf_ts it) m) (inflations s) (due l (now s)) /\
  match last (due l (now s)) with
  | Some it => mint_is s' it
  | None => mint_same s s'
  end.
Proof.
  induction l as [|it l IH]; intros s s' Hs H; simpl in H.
  - injection H as <-. repeat split; reflexivity.
  - destruct (now s <? inf_ts it) eqn:E.
    + injection H as <-. rewrite (due_nil_of_sorted it l (now s) Hs) by lia. repeat split; reflexivity.
    + apply rbind_ok in H as (u & _ & H).
      apply StronglySorted_inv in Hs as [Hs' Hall].
      apply IH in H as (Hn & Hm & Hl); [|exact Hs'].
      change (now (mint_apply s it)) with (now s) in *.
      unfold due at 1 2. rewrite filter_cons_True by lia. fold (due l (now s)).
      split; [exact Hn|]. split; [exact Hm|].
      destruct (due l (now s)) as [|y ys] eqn:Ed.
      * simpl in *. destruct Hl as (A & B & C & D). unfold mint_is. rewrite A, B, C, D. repeat split; reflexivity.
      * rewrite last_cons. destruct (last (y :: ys)) eqn:El; [exact Hl|].
        apply last_None in El. discriminate.
Qed.

Lemma mint_loop_no_panic l : forall s,
  Forall (fun it => mint_params_valid (inf_max it) (inf_min it) (inf_rate it) = true) l ->
  exists s', mint_loop l s = Ok s'.
Proof.
  induction l as [|it l IH]; intros s Hall; simpl; [eauto|].
  destruct (now s <? inf_ts it); [eauto|].
  apply Forall_cons in Hall as [Hit Hall]. rewrite Hit. simpl. apply IH. exact Hall.
Qed.

(** * the items of the schedule *)

Lemma elem_of_mint_items s it :
  infl_keys_ok s -> (it ∈ mint_items s <-> inflations s !! inf_ts it = Some it).
Proof.
  intros Hk. unfold mint_items. rewrite elem_of_list_fmap. split.
  - intros ([k x] & -> & Hin). apply elem_of_sort_by, elem_of_map_to_list in Hin. simpl.
    rewrite (Hk _ _ Hin). exact Hin.
  - intros H. exists (inf_ts it, it). split; [reflexivity|]. apply elem_of_sort_by, elem_of_map_to_list. exact H.
Qed.

Lemma mint_items_sorted s : infl_keys_ok s -> StronglySorted ts_le (mint_items s).
Proof.
  intros Hk. unfold mint_items.
  set (c := fun x y : Z * inflation => x.1 ?= y.1).
  set (l := sort_by c (map_to_list (inflations s))).
  assert (Hs : StronglySorted (cmp_le c) l) by apply sort_by_sorted, _.
  assert (Hin : forall x, x ∈ l -> inf_ts x.2 = x.1).
  { intros [k x] Hx. apply elem_of_sort_by, elem_of_map_to_list in Hx. simpl. eauto. }
  clearbody l. induction Hs as [|x l Hs IH Hall]; simpl; constructor.
  - apply IH. intros y Hy. apply Hin. right. exact Hy.
  - apply Forall_forall. intros y Hy. apply elem_of_list_fmap in Hy as (z & -> & Hz).
    rewrite Forall_forall in Hall. specialize (Hall z Hz). unfold cmp_le, c in Hall.
    unfold ts_le. pose proof (Hin x ltac:(left)) as Hx. pose proof (Hin z ltac:(right; exact Hz)) as Hz'.
    unfold time in *. assert (x.1 <= z.1) by (apply Z.compare_le_iff; exact Hall). lia.
Qed.

(* the last due entry of a sorted list has the largest timestamp among the due ones *)
Lemma last_due_max l t it :
  StronglySorted ts_le l -> last (due l t) = Some it ->
  it ∈ l /\ inf_ts it <= t /\ forall x, x ∈ l -> inf_ts x <= t -> inf_ts x <= inf_ts it.
Proof.
  induction l as [|y l IH]; intros Hs Hl; [discriminate|].
  apply StronglySorted_inv in Hs as [Hs' Hall]. unfold due in Hl.
  destruct (decide (inf_ts y <= t)) as [Hy|Hy].
  - rewrite filter_cons_True in Hl by exact Hy. fold (due l t) in Hl.
    destruct (due l t) as [|z zs] eqn:Ed.
    + simpl in Hl. injection Hl as <-. split; [left|]. split; [exact Hy|].
      intros x Hx Hxt. apply elem_of_cons in Hx as [->|Hx]; [lia|].
      assert (x ∈ due l t) by (apply elem_of_list_filter; auto). rewrite Ed in H. inversion H.
    + rewrite last_cons in Hl. destruct (last (z :: zs)) eqn:El; [|apply last_None in El; discriminate].
      injection Hl as <-. destruct (IH Hs' eq_refl) as (A & B & C).
      split; [right; exact A|]. split; [exact B|].
      intros x Hx Hxt. apply elem_of_cons in Hx as [->|Hx]; [|auto].
      rewrite Forall_forall in Hall. apply (Hall _ A).
  - rewrite filter_cons_False in Hl by exact Hy. fold (due l t) in Hl.
    destruct (IH Hs' Hl) as (A & B & C). split; [right; exact A|]. split; [exact B|].
    intros x Hx Hxt. apply elem_of_cons in Hx as [->|Hx]; [lia|auto].
Qed.

Lemma lookup_foldl_delete (m : gmap time inflation) (l : list inflation) k :
  foldl (fun m it => delete (inf_ts it) m) m l !! k =
  if bool_decide (k ∈ map inf_ts l) then None else m !! k.
Proof.
  revert m. induction l as [|it l IH]; intros m; cbn [foldl map].
  - rewrite bool_decide_eq_false_2 by (intros H; inversion H). reflexivity.
  - rewrite IH. destruct (decide (k = inf_ts it)) as [->|Hne].
    + rewrite lookup_delete. rewrite (bool_decide_eq_true_2 (inf_ts it ∈ inf_ts it :: map inf_ts l)) by left.
      case_bool_decide; reflexivity.
    + rewrite lookup_delete_ne by congruence.
      destruct (decide (k ∈ map inf_ts l)) as [Hin|Hin].
      * rewrite !bool_decide_eq_true_2; [reflexivity|right; exact Hin|exact Hin].
      * rewrite !bool_decide_eq_false_2; [reflexivity| |exact Hin].
        intros H. apply elem_of_cons in H as [?|?]; [congruence|contradiction].
Qed.

(** * the specification of custommint.BeginBlock *)

Theorem mint_begin_block_spec s s' :
  infl_keys_ok s -> mint_begin_block s = Ok s' ->
  (* entries at or before the block time are removed, later ones are untouched *)
  (forall k, inflations s' !! k = if bool_decide (k <= now s) then None else inflations s !! k) /\
  (* the latest due entry determines the minting parameters and resets the inflation rate to its minimum *)
  (forall it, inflations s !! inf_ts it = Some it -> inf_ts it <= now s ->
     (forall k x, inflations s !! k = Some x -> k <= now s -> k <= inf_ts it) -> mint_is s' it) /\
  (* nothing due: nothing changes *)
  ((forall k x, inflations s !! k = Some x -> now s < k) -> mint_same s s' /\ inflations s' = inflations s) /\
  keeps [GMint] s s'.
Proof.
  intros Hk H. pose proof (mint_begin_block_keeps _ _ H) as Hkeeps.
  unfold mint_begin_block in H. pose proof (mint_items_sorted s Hk) as Hs.
  destruct (mint_loop_spec _ _ _ Hs H) as (Hn & Hm & Hl).
  assert (Hlook : forall k, inflations s' !! k = if bool_decide (k <= now s) then None else inflations s !! k).
  { intros k. rewrite Hm, lookup_foldl_delete. case_bool_decide as Hin.
    - apply elem_of_list_fmap in Hin as (it & -> & Hit). apply elem_of_list_filter in Hit as [Hle _].
      rewrite bool_decide_eq_true_2 by exact Hle. reflexivity.
    - case_bool_decide as Hle; [|reflexivity].
      destruct (inflations s !! k) as [it|] eqn:E; [|exact E]. exfalso. apply Hin.
      apply elem_of_list_fmap. exists it. pose proof (Hk _ _ E) as Hts. split; [congruence|].
      apply elem_of_list_filter. split; [lia|]. apply elem_of_mint_items; [exact Hk|]. rewrite Hts. exact E. }
  split; [exact Hlook|]. split; [|split; [|exact Hkeeps]].
  - intros it Hit Hle Hmax.
    assert (Hdue : it ∈ due (mint_items s) (now s)).
    { apply elem_of_list_filter. split; [exact Hle|]. apply elem_of_mint_items; auto. }
    destruct (last (due (mint_items s) (now s))) as [it0|] eqn:El.
    + destruct (last_due_max _ _ _ Hs El) as (A & B & C).
      apply (elem_of_mint_items s it0 Hk) in A.
      assert (inf_ts it0 = inf_ts it).
      { pose proof (Hmax _ _ A B). pose proof (C it (proj2 (elem_of_mint_items s it Hk) Hit) Hle). lia. }
      rewrite H0 in A. rewrite Hit in A. injection A as ->. exact Hl.
    + apply last_None in El. rewrite El in Hdue. inversion Hdue.
  - intros Hnone.
    assert (Ed : due (mint_items s) (now s) = []).
    { destruct (due (mint_items s) (now s)) as [|y ys] eqn:Ed; [reflexivity|].
      assert (Hy : y ∈ due (mint_items s) (now s)) by (rewrite Ed; left).
      apply elem_of_list_filter in Hy as [Hle Hy]. apply (elem_of_mint_items s y Hk) in Hy.
      specialize (Hnone _ _ Hy). lia. }
    rewrite Ed in Hl, Hm. simpl in *. split; [exact Hl|exact Hm].
Qed.

(* it cannot panic when every scheduled entry passed genesis validation *)
Theorem mint_begin_block_total s :
  infl_keys_ok s -> infl_valid s -> exists s', mint_begin_block s = Ok s'.
Proof.
  intros Hk Hv. unfold mint_begin_block. apply mint_loop_no_panic.
  apply Forall_forall. intros it Hit. apply (elem_of_mint_items s it Hk) in Hit. eapply Hv; eauto.
Qed.

(** * the schedule over histories: only custommint.BeginBlock touches it, and only by removing due entries *)

Definition infl_ok (s : state) : Prop := infl_keys_ok s /\ infl_valid s.

Lemma infl_ok_sub s s' :
  (forall k it, inflations s' !! k = Some it -> inflations s !! k = Some it) -> infl_ok s -> infl_ok s'.
Proof. intros Hsub [Hk Hv]. split; intros k it H; [eapply Hk|eapply Hv]; eauto. Qed.

Theorem schedule_step s o s' :
  infl_ok s -> step s o = OOk s' ->
  infl_ok s' /\
  (* entries are only ever removed, and only those that are due at the new block time *)
  (forall k it, inflations s' !! k = Some it -> inflations s !! k = Some it) /\
  (forall k it, inflations s !! k = Some it -> inflations s' !! k = None -> exists t, o = OBegin t /\ k <= t) /\
  (* minting parameters change only in the begin-of-block step *)
  ((forall t, o <> OBegin t) -> mint_same s s' /\ inflations s' = inflations s).
Proof.
  intros Hok H.
  assert (Hother : (forall t, o <> OBegin t) -> mint_same s s' /\ inflations s' = inflations s).
  { intros Hne. unfold step in H. destruct o as [t|m|cs|]; [exfalso; eapply Hne; reflexivity| | |].
    - unfold run_tx in H. destruct (validate_basic m); [|discriminate].
      destruct (handle _ m) as [x| |] eqn:Hh; try discriminate. injection H as <-.
      apply handle_keeps in Hh. unfold mint_same. keeps_solve.
    - destruct (forallb pchange_valid _); [|discriminate]. injection H as <-.
      apply (fold_left_inv (fun x => mint_same s x /\ inflations x = inflations s)).
      + intros x c Hx. pose proof (apply_pchange_keeps x c). unfold mint_same in *. keeps_solve.
      + unfold mint_same. repeat split; reflexivity.
    - destruct (end_block _) as [x| |] eqn:Hh; try discriminate. injection H as <-.
      apply end_block_keeps in Hh. unfold mint_same. keeps_solve. }
  destruct o as [t|m|cs|].
  2-4: destruct Hother as [Hms Hinf]; [intros t; discriminate|];
       split; [eapply infl_ok_sub; [|exact Hok]; rewrite Hinf; auto|];
       split; [rewrite Hinf; auto|]; split; [rewrite Hinf; intros; congruence|auto].
  unfold step in H. destruct (begin_block _) as [x| |] eqn:Hb; try discriminate. injection H as ->.
  unfold begin_block in Hb. apply rbind_ok in Hb as (s1 & Hm & Hsb).
  apply sub_begin_block_keeps in Hsb.
  assert (Hinf1 : inflations s' = inflations s1) by keeps_solve.
  destruct Hok as [Hk Hv].
  assert (Hk0 : infl_keys_ok (clear_events s <| now := t |>)) by (intros k it; apply Hk).
  destruct (mint_begin_block_spec _ _ Hk0 Hm) as (Hlook & _).
  assert (Hsub : forall k it, inflations s' !! k = Some it -> inflations s !! k = Some it).
  { intros k it. rewrite Hinf1, Hlook. case_bool_decide; [discriminate|auto]. }
  split; [eapply infl_ok_sub; [exact Hsub|split; assumption]|].
  split; [exact Hsub|]. split; [|intros Hne; exfalso; eapply Hne; reflexivity].
  intros k it Hs Hn. exists t. split; [reflexivity|]. rewrite Hinf1, Hlook in Hn.
  simpl in Hn. case_bool_decide; [assumption|]. simpl in Hn. congruence.
Qed.

(* what the begin-of-block step of a whole block does to the schedule and the minting parameters *)
Theorem begin_step_mint s t s' :
  infl_ok s -> step s (OBegin t) = OOk s' ->
  (forall k, inflations s' !! k = if bool_decide (k <= t) then None else inflations s !! k) /\
  (forall it, inflations s !! inf_ts it = Some it -> inf_ts it <= t ->
     (forall k x, inflations s !! k = Some x -> k <= t -> k <= inf_ts it) -> mint_is s' it) /\
  ((forall k x, inflations s !! k = Some x -> t < k) -> mint_same s s' /\ inflations s' = inflations s).
Proof.
  intros [Hk Hv] H. unfold step in H. destruct (begin_block _) as [x| |] eqn:Hb; try discriminate. injection H as ->.
  unfold begin_block in Hb. apply rbind_ok in Hb as (s1 & Hm & Hsb).
  apply sub_begin_block_keeps in Hsb.
  assert (Hk0 : infl_keys_ok (clear_events s <| now := t |>)) by (intros k it; apply Hk).
  destruct (mint_begin_block_spec _ _ Hk0 Hm) as (Hlook & Hlat & Hnone & _).
  assert (Hinf1 : inflations s' = inflations s1) by keeps_solve.
  assert (Hms : mint_same s1 s') by (unfold mint_same; keeps_solve).
  split; [intros k; rewrite Hinf1; apply Hlook|]. split.
  - intros it A B C. specialize (Hlat it A B C). unfold mint_is, mint_same in *. intuition congruence.
  - intros A. destruct (Hnone A) as [B C]. simpl in C. split; [|rewrite Hinf1; exact C].
    unfold mint_same in *. simpl in *. intuition congruence.
Qed.

(** * over whole histories *)

Theorem schedule_run ops : forall s i s',
  infl_ok s -> run_from s ops i = RunOk s' ->
  infl_ok s' /\ (forall k it, inflations s' !! k = Some it -> inflations s !! k = Some it).
Proof.
  induction ops as [|o ops IH]; simpl; intros s i s' Hok H.
  - injection H as <-. auto.
  - destruct (step s o) as [s1| |] eqn:E; try discriminate.
    + destruct (schedule_step _ _ _ Hok E) as (Hok1 & Hsub & _).
      destruct (IH _ _ _ Hok1 H) as (Hok' & Hsub'). split; [exact Hok'|]. intros k it Hk. auto.
    + apply (IH _ _ _) in H; [exact H|]. destruct Hok as [A B]. split; intros k it Hk; [eapply A|eapply B]; exact Hk.
Qed.

(* the chain never halts in custommint.BeginBlock *)
Theorem mint_never_halts s t :
  infl_ok s -> exists s1, mint_begin_block (clear_events s <| now := t |>) = Ok s1.
Proof. intros [Hk Hv]. apply mint_begin_block_total; intros k it H; [eapply Hk|eapply Hv]; exact H. Qed.

(* genesis: a schedule accepted by GenesisState.Validate (valid entries; duplicates are rejected there) *)
Lemma infl_ok_init g :
  Forall (fun it => mint_params_valid (inf_max it) (inf_min it) (inf_rate it) = true) (g_inflations g) ->
  infl_ok (init g).
Proof.
  intros Hall. unfold init. destruct (g_mint g) as [[[mx mn] rc] inf]. simpl.
  split; intros k it H; simpl in H; apply elem_of_list_to_map_2, elem_of_list_fmap in H as (x & Heq & Hx);
    injection Heq as -> ->; [reflexivity|].
  rewrite Forall_forall in Hall. apply Hall. exact Hx.
Qed.
