(* idx_sub (InvDefs.v) is preserved by quota sharing, hourly payouts, settlement and expiry. *)
From Hub Require Import Base.Prelude Base.Arith Model.Types Model.Keeper Model.Handlers Model.Hooks Model.Step.
From Hub Require Import Proofs.Tactics Proofs.Frames Proofs.KeysInv Proofs.ArithThm Proofs.IndexSess Proofs.InvDefs Proofs.Quota Proofs.IndexSub Proofs.Listing.

(** * sharing quota *)

(* updating the grant / usage of existing allocations changes nothing idx_sub talks about *)
Lemma idx_sub_alloc_update s s' :
  subs s' = subs s -> payouts s' = payouts s -> sub_q s' = sub_q s -> sub_acc s' = sub_acc s ->
  sub_node s' = sub_node s -> sub_plan s' = sub_plan s -> pay_q s' = pay_q s -> pay_acc s' = pay_acc s ->
  pay_node s' = pay_node s -> pay_acc_node s' = pay_acc_node s ->
  (forall k, is_Some (allocs s' !! k) <-> is_Some (allocs s !! k)) ->
  idx_sub s -> idx_sub s'.
Proof.
  intros E1 E3 E4 E5 E6 E7 E8 E9 E10 E11 Hdom Hix.
  split; rewrite ?E1, ?E3, ?E4, ?E5, ?E6, ?E7, ?E8, ?E9, ?E10, ?E11; intros.
  - apply (ix_subq _ Hix).
  - apply (ix_subnode _ Hix).
  - apply (ix_subplan _ Hix).
  - rewrite (ix_subacc _ Hix). setoid_rewrite Hdom. reflexivity.
  - apply (ix_payacc _ Hix).
  - apply (ix_paynode _ Hix).
  - apply (ix_payaccnode _ Hix).
  - apply (ix_payq _ Hix).
  - eapply (st_kind _ Hix); eauto.
  - assert (Hs : is_Some (allocs s !! (id, a))) by (apply Hdom; eauto). destruct Hs as [al0 Hal0].
    apply (st_alloc_sub _ Hix _ _ _ Hal0).
  - apply Hdom. eapply (st_sub_alloc _ Hix); eauto.
  - apply (st_pay_sub _ Hix _ _ H).
  - eapply (st_sub_pay _ Hix); eauto.
Qed.

Lemma idx_h_sub_allocate s from id to b s' : kinv s -> idx_sub s -> h_sub_allocate s from id to b = Ok s' -> idx_sub s'.
Proof.
  intros Hi Hix H. unfold h_sub_allocate in H. destruct (subs s !! id) as [sb|] eqn:Hsb; [|discriminate].
  apply rbind_ok in H as (u1 & Hkind & H). apply ensure_ok in Hkind.
  destruct (sb_kind sb) as [|pid dn] eqn:Ek; [discriminate|].
  apply rbind_ok in H as (u2 & Hown & H). apply ensure_ok, bool_decide_eq_true in Hown.
  destruct (allocs s !! (id, ta_bytes from)) as [fal|] eqn:Hfal; [|discriminate].
  apply rbind_ok in H as (u3 & Hne & H). apply ensure_ok, negb_true_iff, bool_decide_eq_false in Hne.
  remember (ta_bytes to) as ta eqn:Eta. remember (ta_bytes from) as fa eqn:Efa. clear Eta Efa.
  destruct (allocs s !! (id, ta)) as [tal|] eqn:Htal.
  - (* receiver already holds an allocation *)
    cbv beta iota zeta in H.
    apply rbind_ok in H as (granted & _ & H). apply rbind_ok in H as (util & _ & H). apply rbind_ok in H as (avail & _ & H).
    apply rbind_ok in H as (u4 & _ & H). apply rbind_ok in H as (fg & _ & H). apply rbind_ok in H as (u5 & _ & H).
    apply rbind_ok in H as (u6 & _ & H). injection H as <-.
    apply (idx_sub_alloc_update s); try reflexivity; [|exact Hix]. simpl. intros k.
    destruct (decide (k = (id, ta))) as [->|N1]; [rewrite lookup_insert, Htal; split; eauto|rewrite lookup_insert_ne by congruence].
    destruct (decide (k = (id, fa))) as [->|N2]; [rewrite lookup_insert, Hfal; split; eauto|rewrite lookup_insert_ne by congruence]. reflexivity.
  - (* a new allocation for the receiver *)
    cbv beta iota zeta in H.
    apply rbind_ok in H as (granted & _ & H). apply rbind_ok in H as (util & _ & H). apply rbind_ok in H as (avail & _ & H).
    apply rbind_ok in H as (u4 & _ & H). apply rbind_ok in H as (fg & _ & H). apply rbind_ok in H as (u5 & _ & H).
    apply rbind_ok in H as (u6 & _ & H). injection H as <-.
    apply idx_sub_emit.
    split; simpl; intros.
    + apply (ix_subq _ Hix).
    + apply (ix_subnode _ Hix).
    + apply (ix_subplan _ Hix).
    + ix_sets. rewrite (ix_subacc _ Hix). clear Hix. lks; rewrite ?Hfal, ?Htal, ?Hsb; unfold is_Some; timeout 30 naive_solver.
    + apply (ix_payacc _ Hix).
    + apply (ix_paynode _ Hix).
    + apply (ix_payaccnode _ Hix).
    + apply (ix_payq _ Hix).
    + eapply (st_kind _ Hix); eauto.
    + revert H. lks.
      * intros _. exists sb. split; [exact Hsb|]. unfold hourly, metered. rewrite Ek. split; [reflexivity|discriminate].
      * intros _. exists sb. split; [exact Hsb|]. unfold hourly, metered. rewrite Ek. split; [reflexivity|discriminate].
      * apply (st_alloc_sub _ Hix).
    + destruct (st_sub_alloc _ Hix _ _ H H0) as [al0 Hal0]. lks; eauto.
    + apply (st_pay_sub _ Hix _ _ H).
    + eapply (st_sub_pay _ Hix); eauto.
Qed.

(** * hourly payouts *)

Lemma payout_step_spec s e s' po :
  payouts s !! e.2 = Some po -> payout_step s e = Ok s' ->
  let h := po_hours po - 1 in
  let nx := if h =? 0 then tzero else po_next_at po + HOUR in
  subs s' = subs s /\ allocs s' = allocs s /\ sub_q s' = sub_q s /\ sub_acc s' = sub_acc s /\ sub_node s' = sub_node s /\
  sub_plan s' = sub_plan s /\ pay_acc s' = pay_acc s /\ pay_node s' = pay_node s /\ pay_acc_node s' = pay_acc_node s /\
  payouts s' = <[po_id po := po <| po_hours := h |> <| po_next_at := nx |>]> (payouts s) /\
  pay_q s' = if 0 <? h then (pay_q s ∖ {[ (po_next_at po, po_id po) ]}) ∪ {[ (nx, po_id po) ]}
             else pay_q s ∖ {[ (po_next_at po, po_id po) ]}.
Proof.
  intros Hpo H. unfold payout_step in H. rewrite Hpo in H.
  apply rbind_ok in H as (reward & _ & H). apply rbind_ok in H as (s2 & H2 & H). apply rbind_ok in H as (payment & _ & H).
  apply rbind_ok in H as (s3 & H3 & H). apply must_ok, z_dep_to_module_keeps in H2. apply must_ok, z_dep_to_account_keeps in H3.
  injection H as <-. cbv zeta. destruct (0 <? po_hours po - 1); simpl; sub_base; simpl; repeat split; reflexivity.
Qed.

Lemma idx_payout_step s e s' : kinv_sub s -> idx_sub s -> e ∈ pay_q s -> payout_step s e = Ok s' -> idx_sub s'.
Proof.
  intros Hk Hix He H. destruct e as [t id].
  destruct (proj1 (ix_payq _ Hix t id) He) as (po & sb & Hpo & Hnx & Hh & Hsb & Hact).
  destruct (k_po _ Hk _ _ Hpo) as [Eid _].
  destruct (payout_step_spec s (t, id) s' po Hpo H) as (E1 & E2 & E4 & E5 & E6 & E7 & E9 & E10 & E11 & E3 & E8).
  cbv zeta in E3, E8. rewrite Eid in E3, E8. clear H.
  split; rewrite ?E1, ?E2, ?E3, ?E4, ?E5, ?E6, ?E7, ?E9, ?E10, ?E11; intros.
  - apply (ix_subq _ Hix).
  - apply (ix_subnode _ Hix).
  - apply (ix_subplan _ Hix).
  - apply (ix_subacc _ Hix).
  - rewrite (ix_payacc _ Hix). clear Hix. lks; rewrite ?Hpo; timeout 30 naive_solver.
  - rewrite (ix_paynode _ Hix). clear Hix. lks; rewrite ?Hpo; timeout 30 naive_solver.
  - rewrite (ix_payaccnode _ Hix). clear Hix. lks; rewrite ?Hpo; timeout 30 naive_solver.
  - rewrite E8. destruct (0 <? po_hours po - 1) eqn:Eh.
    + ix_sets. rewrite (ix_payq _ Hix). clear Hix. apply Z.ltb_lt in Eh.
      destruct (po_hours po - 1 =? 0) eqn:E0; [lia|].
      lks; rewrite ?Hpo, ?Hsb; simpl; timeout 30 naive_solver lia.
    + ix_sets. rewrite (ix_payq _ Hix). clear Hix. apply Z.ltb_ge in Eh.
      lks; rewrite ?Hpo, ?Hsb; simpl; timeout 30 naive_solver lia.
  - eapply (st_kind _ Hix); eauto.
  - apply (st_alloc_sub _ Hix _ _ _ H).
  - eapply (st_sub_alloc _ Hix); eauto.
  - match goal with H : <[_ := _]> _ !! _ = Some ?p |- _ => rename p into pnew end.
    assert (Hold : exists pold, payouts s !! id0 = Some pold /\ po_node pnew = po_node pold /\ po_addr pnew = po_addr pold /\
                                (0 <= po_hours pold -> 0 <= po_hours pnew)).
    { apply lookup_insert_Some in H as [[<- <-]|[? H]]; [exists po; simpl; repeat split; auto; lia|eexists; split; eauto]. }
    destruct Hold as (pold & Hpo0 & N1 & N2 & N3). rewrite N1, N2.
    destruct (st_pay_sub _ Hix _ _ Hpo0) as (Hh' & R). split; [auto|exact R].
  - destruct (st_sub_pay _ Hix _ _ H H0) as [pold Hpold]. lks; eauto.
Qed.

(** * settlement *)

Lemma session_inactive_hook_subfields s sid acc nd b s' :
  session_inactive_hook s sid acc nd b = Ok s' ->
  subs s' = subs s /\ payouts s' = payouts s /\ sub_q s' = sub_q s /\ sub_acc s' = sub_acc s /\ sub_node s' = sub_node s /\
  sub_plan s' = sub_plan s /\ pay_q s' = pay_q s /\ pay_acc s' = pay_acc s /\ pay_node s' = pay_node s /\
  pay_acc_node s' = pay_acc_node s /\ sub_count s' = sub_count s.
Proof.
  intros H. unfold session_inactive_hook in H. res_inv; pose_keeps;
    repeat match goal with
    | Hk : keeps ?T ?a ?y |- _ =>
        let K := fresh "K" in pose proof (keeps_sub_eqs T a y Hk eq_refl) as K; clear Hk;
        destruct K as (?K & ?K & ?K & ?K & ?K & ?K & ?K & ?K & ?K & ?K & ?K & ?K)
    end; simpl in *; repeat split; congruence.
Qed.

Lemma idx_session_inactive_hook s sid acc nd b s' :
  kinv_sub s -> idx_sub s -> session_inactive_hook s sid acc nd b = Ok s' -> idx_sub s'.
Proof.
  intros Hk Hix H. destruct (session_inactive_hook_subfields _ _ _ _ _ _ H) as (E1 & E3 & E4 & E5 & E6 & E7 & E8 & E9 & E10 & E11 & _).
  apply (idx_sub_alloc_update s); try assumption.
  destruct (session_inactive_hook_allocs _ _ _ _ _ _ Hk H) as [->|(x & al & u' & _ & Hal & -> & _)]; [reflexivity|].
  intros k. destruct (decide (k = (ss_sub x, acc))) as [->|Hne]; [rewrite lookup_insert, Hal; split; eauto|rewrite lookup_insert_ne by congruence; reflexivity].
Qed.

Lemma idx_session_expire_one s e s' : kinv s -> idx_sub s -> session_expire_one s e = Ok s' -> idx_sub s'.
Proof.
  intros Hi Hix H. unfold session_expire_one in H. destruct (sessions s !! e.2) as [x|]; [|discriminate].
  case_bool_decide.
  - injection H as <-. eapply idx_sub_frame; [..|exact Hix]; reflexivity.
  - apply rbind_ok in H as (total & _ & H). apply rbind_ok in H as (s1 & Hh & H). apply must_ok in Hh. injection H as <-.
    eapply (idx_sub_frame s1); try reflexivity.
    eapply idx_session_inactive_hook; [| |exact Hh]; [eapply kinv_sub_frame; [..|apply (ki_sub _ Hi)]; reflexivity|]. eapply idx_sub_frame; [..|exact Hix]; reflexivity.
Qed.

(** * removal of a subscription *)

Definition cleanup_step (id : Z) (s : state) (al : allocation) : state :=
  s <| allocs ::= fun m => delete (id, al_addr al) m |> <| sub_acc ::= fun i => i ∖ {[ (al_addr al, id) ]} |>.

Lemma cleanup_fold id l : forall s0,
  let s1 := fold_left (cleanup_step id) l s0 in
  (forall k, allocs s1 !! k = if bool_decide (k.1 = id /\ k.2 ∈ map al_addr l) then None else allocs s0 !! k) /\
  (forall x, x ∈ sub_acc s1 <-> x ∈ sub_acc s0 /\ ~ (x.2 = id /\ x.1 ∈ map al_addr l)) /\
  subs s1 = subs s0 /\ payouts s1 = payouts s0 /\ sub_q s1 = sub_q s0 /\ sub_node s1 = sub_node s0 /\ sub_plan s1 = sub_plan s0 /\
  pay_q s1 = pay_q s0 /\ pay_acc s1 = pay_acc s0 /\ pay_node s1 = pay_node s0 /\ pay_acc_node s1 = pay_acc_node s0 /\
  sub_count s1 = sub_count s0.
Proof.
  induction l as [|al l IH]; intros s0; cbn [fold_left map].
  - split; [intros k; rewrite bool_decide_eq_false_2; [reflexivity|intros [_ Hin]; inversion Hin]|].
    split; [intros x; split; [intros Hx; split; [exact Hx|intros [_ Hin]; inversion Hin]|tauto]|]. repeat split; reflexivity.
  - destruct (IH (cleanup_step id s0 al)) as (A & B & C). cbv zeta. split; [|split; [|exact C]].
    + intros k. rewrite A. unfold cleanup_step; simpl.
      destruct (decide (k = (id, al_addr al))) as [->|Hne].
      * rewrite lookup_delete. simpl. rewrite (bool_decide_eq_true_2 (id = id /\ al_addr al ∈ al_addr al :: map al_addr l)) by (split; [reflexivity|left]).
        destruct (bool_decide _); reflexivity.
      * rewrite lookup_delete_ne by congruence.
        destruct k as [k1 k2]; simpl in *.
        repeat case_bool_decide; try reflexivity; exfalso.
        -- match goal with Hn : ~ (_ /\ _ ∈ _ :: _) |- _ => apply Hn end. destruct H as [-> Hin]. split; [reflexivity|right; exact Hin].
        -- destruct H0 as [-> Hin]. apply elem_of_cons in Hin as [->|Hin]; [congruence|]. apply H. split; [reflexivity|exact Hin].
    + intros x. rewrite B. unfold cleanup_step; simpl. rewrite elem_of_difference, elem_of_singleton.
      destruct x as [x1 x2]; simpl. rewrite elem_of_cons. split.
      * intros [[Hx Hne] Hn]. split; [exact Hx|]. intros [-> [->|Hin]]; [apply Hne; reflexivity|apply Hn; split; [reflexivity|exact Hin]].
      * intros [Hx Hn]. split; [split; [exact Hx|]|].
        -- intros [= -> ->]. apply Hn. split; [reflexivity|left; reflexivity].
        -- intros [-> Hin]. apply Hn. split; [reflexivity|right; exact Hin].
Qed.

Lemma sub_refund_subfields s sb s' :
  sub_refund s sb = Ok s' ->
  sub_count s' = sub_count s /\ subs s' = subs s /\ sub_q s' = sub_q s /\ sub_acc s' = sub_acc s /\
  sub_node s' = sub_node s /\ sub_plan s' = sub_plan s /\ allocs s' = allocs s /\
  payouts s' = payouts s /\ pay_q s' = pay_q s /\ pay_acc s' = pay_acc s /\
  pay_node s' = pay_node s /\ pay_acc_node s' = pay_acc_node s.
Proof. intros H. apply sub_refund_keeps in H. exact (keeps_sub_eqs _ _ _ H eq_refl). Qed.

(* the uniform effect of removing subscription [id], whatever its kind *)
Definition removed_sub (id : Z) (iat : time) (s s' : state) : Prop :=
  subs s' = delete id (subs s) /\ payouts s' = delete id (payouts s) /\
  (forall k, allocs s' !! k = if bool_decide (k.1 = id) then None else allocs s !! k) /\
  sub_q s' = sub_q s ∖ {[ (iat, id) ]} /\
  (forall x, x ∈ sub_acc s' <-> x ∈ sub_acc s /\ x.2 <> id) /\
  (forall x, x ∈ sub_node s' <-> x ∈ sub_node s /\ x.2 <> id) /\
  (forall x, x ∈ sub_plan s' <-> x ∈ sub_plan s /\ x.2 <> id) /\
  (forall x, x ∈ pay_acc s' <-> x ∈ pay_acc s /\ x.2 <> id) /\
  (forall x, x ∈ pay_node s' <-> x ∈ pay_node s /\ x.2 <> id) /\
  pay_q s' = pay_q s /\ pay_acc_node s' = pay_acc_node s /\ sub_count s' = sub_count s.

Lemma sub_remove_spec s e s' sb :
  kinv_sub s -> idx_sub s -> subs s !! e.2 = Some sb -> sb_status sb <> SActive -> sub_expire_one s e = Ok s' ->
  removed_sub e.2 (sb_inactive_at sb) s s'.
Proof.
  intros Hk Hix Hsb Hst H. unfold sub_expire_one in H. rewrite Hsb in H. rewrite bool_decide_eq_false_2 in H by exact Hst.
  destruct (k_sub _ Hk _ _ Hsb) as (Eid & _ & _). destruct e as [t id]. simpl in *. subst id.
  apply rbind_ok in H as (s1 & Hr & H).
  destruct (sub_refund_subfields _ _ _ Hr) as (R0 & R1 & R2 & R3 & R4 & R5 & R6 & R7 & R8 & R9 & R10 & R11). simpl in *.
  pose proof (st_kind _ Hix _ _ Hsb) as Hkind.
  unfold sub_delete_payout, sub_cleanup in H.
  destruct (sb_kind sb) as [nd g h dep|pid dn] eqn:Ek.
  - (* pay-as-you-go *)
    assert (Hal : forall a, a <> sb_addr sb -> allocs s !! (sb_id sb, a) = None).
    { intros a Ha. destruct (allocs s !! (sb_id sb, a)) as [al|] eqn:E; [|reflexivity].
      destruct (st_alloc_sub _ Hix _ _ _ E) as (sb0 & Hs0 & Hh0 & Hm0). rewrite Hsb in Hs0. injection Hs0 as <-.
      unfold hourly, metered in *. rewrite Ek in *. destruct Hkind as [[[-> Hh]|[Hg ->]] _].
      - destruct (h =? 0) eqn:E0; [lia|discriminate].
      - destruct (g =? 0) eqn:E0; [lia|]. exfalso. apply Ha. apply Hm0. reflexivity. }
    assert (Hacc : forall a, (a, sb_id sb) ∈ sub_acc s -> a = sb_addr sb).
    { intros a Ha. apply (ix_subacc _ Hix) in Ha as (sb0 & Hs0 & [<-|[al Hal0]]).
      - rewrite Hsb in Hs0. injection Hs0 as <-. reflexivity.
      - destruct (decide (a = sb_addr sb)) as [->|Hne]; [reflexivity|]. rewrite (Hal a Hne) in Hal0. discriminate. }
    assert (Hnode : forall n, (n, sb_id sb) ∈ sub_node s -> n = nd).
    { intros n Hn. apply (ix_subnode _ Hix) in Hn as (sb0 & g0 & h0 & d0 & Hs0 & Hk0). rewrite Hsb in Hs0. injection Hs0 as <-. congruence. }
    assert (Hplan : forall p, (p, sb_id sb) ∉ sub_plan s).
    { intros p Hp. apply (ix_subplan _ Hix) in Hp as (sb0 & d0 & Hs0 & Hk0). rewrite Hsb in Hs0. injection Hs0 as <-. congruence. }
    destruct (h =? 0) eqn:Eh.
    + (* per gigabyte: no payout *)
      assert (Hno : payouts s !! sb_id sb = None).
      { destruct (payouts s !! sb_id sb) as [po|] eqn:Ep; [|reflexivity].
        destruct (st_pay_sub _ Hix _ _ Ep) as (_ & sb0 & g0 & h0 & d0 & Hs0 & Hk0 & Hh0 & _).
        rewrite Hsb in Hs0. injection Hs0 as <-. rewrite Ek in Hk0. injection Hk0 as -> -> -> ->. apply Z.eqb_eq in Eh. lia. }
      assert (Hpa : forall a, (a, sb_id sb) ∉ pay_acc s).
      { intros a Ha. apply (ix_payacc _ Hix) in Ha as (po & Hpo & _). congruence. }
      assert (Hpn : forall a, (a, sb_id sb) ∉ pay_node s).
      { intros a Ha. apply (ix_paynode _ Hix) in Ha as (po & Hpo & _). congruence. }
      injection H as <-. unfold removed_sub. simpl. rewrite ?R0, ?R1, ?R2, ?R3, ?R4, ?R5, ?R6, ?R7, ?R8, ?R9, ?R10, ?R11.
      split; [reflexivity|]. split; [rewrite delete_notin by exact Hno; reflexivity|].
      split; [intros [k1 k2]; simpl; case_bool_decide as Hc;
              [subst k1; destruct (decide (k2 = sb_addr sb)) as [->|Hne]; [apply lookup_delete|rewrite lookup_delete_ne by congruence; apply Hal; exact Hne]
              |rewrite lookup_delete_ne by congruence; reflexivity]|].
      split; [reflexivity|].
      split; [intros [x1 x2]; simpl; rewrite elem_of_difference, elem_of_singleton; split;
              [intros [Hx Hne]; split; [exact Hx|intros ->; apply Hne; f_equal; apply Hacc; exact Hx]|intros [Hx Hne]; split; [exact Hx|congruence]]|].
      split; [intros [x1 x2]; simpl; rewrite elem_of_difference, elem_of_singleton; split;
              [intros [Hx Hne]; split; [exact Hx|intros ->; apply Hne; f_equal; apply Hnode; exact Hx]|intros [Hx Hne]; split; [exact Hx|congruence]]|].
      split; [intros [x1 x2]; simpl; split; [intros Hx; split; [exact Hx|intros ->; exact (Hplan _ Hx)]|tauto]|].
      split; [intros [x1 x2]; simpl; split; [intros Hx; split; [exact Hx|intros ->; exact (Hpa _ Hx)]|tauto]|].
      split; [intros [x1 x2]; simpl; split; [intros Hx; split; [exact Hx|intros ->; exact (Hpn _ Hx)]|tauto]|].
      repeat split; reflexivity.
    + (* per hour: the payout goes too *)
      simpl in H. rewrite R7 in H. destruct (payouts s !! sb_id sb) as [po|] eqn:Hpo; [|discriminate].
      destruct (k_po _ Hk _ _ Hpo) as [Epo _].
      assert (Hpa : forall a, (a, sb_id sb) ∈ pay_acc s -> a = po_addr po).
      { intros a Ha. apply (ix_payacc _ Hix) in Ha as (po0 & Hpo0 & <-). congruence. }
      assert (Hpn : forall a, (a, sb_id sb) ∈ pay_node s -> a = po_node po).
      { intros a Ha. apply (ix_paynode _ Hix) in Ha as (po0 & Hpo0 & <-). congruence. }
      injection H as <-. unfold removed_sub. simpl. rewrite ?R0, ?R1, ?R2, ?R3, ?R4, ?R5, ?R6, ?R7, ?R8, ?R9, ?R10, ?R11, ?Epo.
      split; [reflexivity|]. split; [reflexivity|].
      split; [intros [k1 k2]; simpl; case_bool_decide as Hc;
              [subst k1; destruct (decide (k2 = sb_addr sb)) as [->|Hne]; [apply lookup_delete|rewrite lookup_delete_ne by congruence; apply Hal; exact Hne]
              |rewrite lookup_delete_ne by congruence; reflexivity]|].
      split; [reflexivity|].
      split; [intros [x1 x2]; simpl; rewrite elem_of_difference, elem_of_singleton; split;
              [intros [Hx Hne]; split; [exact Hx|intros ->; apply Hne; f_equal; apply Hacc; exact Hx]|intros [Hx Hne]; split; [exact Hx|congruence]]|].
      split; [intros [x1 x2]; simpl; rewrite elem_of_difference, elem_of_singleton; split;
              [intros [Hx Hne]; split; [exact Hx|intros ->; apply Hne; f_equal; apply Hnode; exact Hx]|intros [Hx Hne]; split; [exact Hx|congruence]]|].
      split; [intros [x1 x2]; simpl; split; [intros Hx; split; [exact Hx|intros ->; exact (Hplan _ Hx)]|tauto]|].
      split; [intros [x1 x2]; simpl; rewrite elem_of_difference, elem_of_singleton; split;
              [intros [Hx Hne]; split; [exact Hx|intros ->; apply Hne; f_equal; apply Hpa; exact Hx]|intros [Hx Hne]; split; [exact Hx|congruence]]|].
      split; [intros [x1 x2]; simpl; rewrite elem_of_difference, elem_of_singleton; split;
              [intros [Hx Hne]; split; [exact Hx|intros ->; apply Hne; f_equal; apply Hpn; exact Hx]|intros [Hx Hne]; split; [exact Hx|congruence]]|].
      repeat split; reflexivity.
  - (* plan subscription: every allocation of it goes *)
    injection H as <-.
    match goal with |- context [fold_left ?f ?l ?s0] => change f with (cleanup_step (sb_id sb)); 
      destruct (cleanup_fold (sb_id sb) l s0) as (CA & CB & C1 & C2 & C3 & C4 & C5 & C6 & C7 & C8 & C9 & C10) end.
    cbv zeta in CA, CB, C1, C2, C3, C4, C5, C6, C7, C8, C9, C10. simpl in CA, CB, C1, C2, C3, C4, C5, C6, C7, C8, C9, C10.
    assert (El : allocs_for s1 (sb_id sb) = allocs_for s (sb_id sb)) by (unfold allocs_for; rewrite R6; reflexivity).
    rewrite El in *.
    assert (Hmap : forall a, a ∈ map al_addr (allocs_for s (sb_id sb)) <-> is_Some (allocs s !! (sb_id sb, a))).
    { intros a. rewrite elem_of_list_fmap. split.
      - intros (al & -> & Hin). apply (Listing.allocs_for_key _ _ _ Hk) in Hin as [_ Hin]. eauto.
      - intros [al Hal]. exists al. destruct (k_al _ Hk _ _ Hal) as (_ & Ea & _). simpl in Ea. split; [congruence|].
        apply Listing.elem_of_allocs_for. eauto. }
    assert (Hno : payouts s !! sb_id sb = None).
    { destruct (payouts s !! sb_id sb) as [po|] eqn:Ep; [|reflexivity].
      destruct (st_pay_sub _ Hix _ _ Ep) as (_ & sb0 & g0 & h0 & d0 & Hs0 & Hk0 & _).
      rewrite Hsb in Hs0. injection Hs0 as <-. rewrite Ek in Hk0. discriminate. }
    assert (Hpa : forall a, (a, sb_id sb) ∉ pay_acc s).
    { intros a Ha. apply (ix_payacc _ Hix) in Ha as (po & Hpo & _). congruence. }
    assert (Hpn : forall a, (a, sb_id sb) ∉ pay_node s).
    { intros a Ha. apply (ix_paynode _ Hix) in Ha as (po & Hpo & _). congruence. }
    assert (Hnode : forall n, (n, sb_id sb) ∉ sub_node s).
    { intros n Hn. apply (ix_subnode _ Hix) in Hn as (sb0 & g0 & h0 & d0 & Hs0 & Hk0). rewrite Hsb in Hs0. injection Hs0 as <-. congruence. }
    assert (Hplan : forall p, (p, sb_id sb) ∈ sub_plan s -> p = pid).
    { intros p Hp. apply (ix_subplan _ Hix) in Hp as (sb0 & d0 & Hs0 & Hk0). rewrite Hsb in Hs0. injection Hs0 as <-. congruence. }
    assert (Hown : is_Some (allocs s !! (sb_id sb, sb_addr sb))).
    { eapply (st_sub_alloc _ Hix); eauto. unfold hourly. rewrite Ek. reflexivity. }
    unfold removed_sub. simpl. rewrite ?C1, ?C2, ?C3, ?C4, ?C5, ?C6, ?C7, ?C8, ?C9, ?C10. simpl.
    rewrite ?R0, ?R1, ?R2, ?R3, ?R4, ?R5, ?R6, ?R7, ?R8, ?R9, ?R10, ?R11.
    split; [reflexivity|]. split; [rewrite delete_notin by exact Hno; reflexivity|].
    split.
    { intros [k1 k2]. rewrite CA. simpl. rewrite R6. repeat case_bool_decide; try reflexivity.
      - exfalso. tauto.
      - subst k1. destruct (allocs s !! (sb_id sb, k2)) eqn:E; [|reflexivity]. exfalso.
        match goal with Hn : ~ (_ /\ _) |- _ => apply Hn end. split; [reflexivity|]. apply Hmap. eauto. }
    split; [reflexivity|].
    split.
    { intros [x1 x2]. rewrite CB. simpl. rewrite R3. split.
      - intros [Hx Hn]. split; [exact Hx|]. intros ->. apply Hn. split; [reflexivity|]. apply Hmap.
        apply (ix_subacc _ Hix) in Hx as (sb0 & Hs0 & [<-|Hsome]); [|exact Hsome].
        rewrite Hsb in Hs0. injection Hs0 as <-. exact Hown.
      - intros [Hx Hne]. split; [exact Hx|]. intros [-> _]. congruence. }
    split; [intros [x1 x2]; simpl; split; [intros Hx; split; [exact Hx|intros ->; exact (Hnode _ Hx)]|tauto]|].
    split; [intros [x1 x2]; simpl; rewrite elem_of_difference, elem_of_singleton; split;
            [intros [Hx Hne]; split; [exact Hx|intros ->; apply Hne; f_equal; apply Hplan; exact Hx]|intros [Hx Hne]; split; [exact Hx|congruence]]|].
    split; [intros [x1 x2]; simpl; split; [intros Hx; split; [exact Hx|intros ->; exact (Hpa _ Hx)]|tauto]|].
    split; [intros [x1 x2]; simpl; split; [intros Hx; split; [exact Hx|intros ->; exact (Hpn _ Hx)]|tauto]|].
    repeat split; reflexivity.
Qed.

Lemma idx_removed id s s' sb :
  idx_sub s -> subs s !! id = Some sb -> sb_status sb <> SActive -> removed_sub id (sb_inactive_at sb) s s' -> idx_sub s'.
Proof.
  intros Hix Hsb Hst (E1 & E3 & EA & E4 & E5 & E6 & E7 & E9 & E10 & E8 & E11 & _).
  assert (EA' : forall i a, i <> id -> allocs s' !! (i, a) = allocs s !! (i, a)).
  { intros i a Hne. rewrite EA. simpl. rewrite bool_decide_eq_false_2 by exact Hne. reflexivity. }
  assert (EA0 : forall a, allocs s' !! (id, a) = None).
  { intros a. rewrite EA. simpl. rewrite bool_decide_eq_true_2 by reflexivity. reflexivity. }
  split; rewrite ?E1, ?E3, ?E4, ?E8, ?E11; intros.
  - ix_sets. rewrite (ix_subq _ Hix). clear Hix EA EA' EA0 E5 E6 E7 E9 E10. lks; rewrite ?Hsb; timeout 30 naive_solver.
  - rewrite E6. simpl. rewrite (ix_subnode _ Hix). clear Hix EA EA' EA0 E5 E6 E7 E9 E10. lks; rewrite ?Hsb; timeout 30 naive_solver.
  - rewrite E7. simpl. rewrite (ix_subplan _ Hix). clear Hix EA EA' EA0 E5 E6 E7 E9 E10. lks; rewrite ?Hsb; timeout 30 naive_solver.
  - rewrite E5. simpl. rewrite (ix_subacc _ Hix). clear Hix EA E5 E6 E7 E9 E10.
    destruct (decide (id0 = id)) as [->|Hne]; [rewrite lookup_delete; timeout 30 naive_solver|].
    rewrite lookup_delete_ne by congruence. rewrite (EA' _ _ Hne). timeout 30 naive_solver.
  - rewrite E9. simpl. rewrite (ix_payacc _ Hix). clear Hix EA EA' EA0 E5 E6 E7 E9 E10. lks; timeout 30 naive_solver.
  - rewrite E10. simpl. rewrite (ix_paynode _ Hix). clear Hix EA EA' EA0 E5 E6 E7 E9 E10. lks; timeout 30 naive_solver.
  - rewrite (ix_payaccnode _ Hix). clear Hix EA EA' EA0 E5 E6 E7 E9 E10. lks; rewrite ?Hsb; timeout 30 naive_solver.
  - rewrite (ix_payq _ Hix). clear Hix EA EA' EA0 E5 E6 E7 E9 E10. lks; rewrite ?Hsb; timeout 30 naive_solver.
  - apply lookup_delete_Some in H as [_ H]. eapply (st_kind _ Hix); eauto.
  - destruct (decide (id0 = id)) as [->|Hne]; [rewrite EA0 in H; discriminate|]. rewrite (EA' _ _ Hne) in H.
    destruct (st_alloc_sub _ Hix _ _ _ H) as (sb0 & Hs0 & R). exists sb0. rewrite lookup_delete_ne by congruence. split; [exact Hs0|exact R].
  - apply lookup_delete_Some in H as [Hne H]. rewrite (EA' _ _ (not_eq_sym Hne)). eapply (st_sub_alloc _ Hix); eauto.
  - apply lookup_delete_Some in H as [Hne H]. destruct (st_pay_sub _ Hix _ _ H) as (Hh & sb0 & g0 & h0 & d0 & Hs0 & R).
    split; [exact Hh|]. exists sb0, g0, h0, d0. rewrite lookup_delete_ne by congruence. split; [exact Hs0|exact R].
  - apply lookup_delete_Some in H as [Hne H]. rewrite lookup_delete_ne by congruence. eapply (st_sub_pay _ Hix); eauto.
Qed.

Lemma idx_sub_expire_one s e s' : kinv s -> idx_sub s -> sub_expire_one s e = Ok s' -> idx_sub s'.
Proof.
  intros Hi Hix H. pose proof H as H0. unfold sub_expire_one in H. destruct (subs s !! e.2) as [sb|] eqn:Hsb; [|discriminate].
  destruct (k_sub _ (ki_sub _ Hi) _ _ Hsb) as (Eid & _ & _).
  case_bool_decide as Hact.
  - apply rbind_ok in H as (s1 & Hp & H). apply must_ok, sub_pending_hook_keeps in Hp. rewrite <- Eid in Hsb.
    eapply (idx_demote s s1 sb Panic); [apply Hi|exact Hix|exact Hsb|exact Hact|..|discriminate|exact H]; keeps_solve.
  - eapply idx_removed; [exact Hix|exact Hsb|exact Hact|]. eapply sub_remove_spec; eauto. apply Hi.
Qed.

(** * blocks *)

Lemma rfold_rest {A S} (P : list A -> S -> Prop) (f : S -> A -> res S) l : forall s s',
  (forall x rest s s', P (x :: rest) s -> f s x = Ok s' -> P rest s') ->
  P l s -> rfold f l s = Ok s' -> P [] s'.
Proof.
  induction l as [|x l IH]; simpl; intros s s' Hf Hp H.
  - injection H as <-. exact Hp.
  - apply rbind_ok in H as (s1 & H1 & H2). eapply IH; [exact Hf| |exact H2]. eapply Hf; eauto.
Qed.

Lemma idx_sub_begin_block s s' : kinv s -> idx_sub s -> sub_begin_block s = Ok s' -> kinv s' /\ idx_sub s'.
Proof.
  intros Hi Hix H. unfold sub_begin_block in H.
  set (P := fun (rest : list (time * Z)) (x : state) => kinv x /\ idx_sub x /\ NoDup rest /\ forall e, e ∈ rest -> e ∈ pay_q x).
  assert (G : P [] s').
  { eapply (rfold_rest P); [| |exact H].
    - intros e rest x x' (Hkx & Hixx & Hnd & Hin) Hstep.
      assert (He : e ∈ pay_q x) by (apply Hin; left).
      split; [|split; [eapply idx_payout_step; eauto; apply Hkx|split; [inversion Hnd; assumption|]]].
      { pose proof (payout_step_keeps _ _ _ Hstep) as Hkeep. kinv_frame Hkeep Hkx. intros _. eapply kinv_payout_step; eauto. apply Hkx. }
      intros e' He'. assert (Hne : e' <> e) by (inversion Hnd; subst; intros ->; contradiction).
      assert (He'q : e' ∈ pay_q x) by (apply Hin; right; exact He').
      destruct e as [t id]. destruct (proj1 (ix_payq _ Hixx t id) He) as (po & sb & Hpo & Hnx & Hh & Hsb & Hact).
      destruct (k_po _ (ki_sub _ Hkx) _ _ Hpo) as [Eid _].
      destruct (payout_step_spec x (t, id) x' po Hpo Hstep) as (_ & _ & _ & _ & _ & _ & _ & _ & _ & _ & E8).
      cbv zeta in E8. rewrite E8, Hnx, Eid. destruct (0 <? po_hours po - 1); set_solver.
    - split; [exact Hi|split; [exact Hix|split; [apply Sorting.NoDup_due_z|]]].
      intros e He. apply Sorting.elem_of_due_z in He. tauto. }
  destruct G as (G1 & G2 & _). split; assumption.
Qed.

Lemma idx_session_end_block s s' : kinv s -> idx_sub s -> session_end_block s = Ok s' -> kinv s' /\ idx_sub s'.
Proof.
  intros Hi Hix H. unfold session_end_block in H.
  eapply (rfold_inv (fun x => kinv x /\ idx_sub x)); [|split; eassumption|exact H].
  intros x e x' [Hkx Hixx] Hstep. split; [eapply kinv_session_expire_one; eauto|eapply idx_session_expire_one; eauto].
Qed.

Lemma idx_sub_end_block s s' : kinv s -> idx_sub s -> sub_end_block s = Ok s' -> kinv s' /\ idx_sub s'.
Proof.
  intros Hi Hix H. unfold sub_end_block in H.
  eapply (rfold_inv (fun x => kinv x /\ idx_sub x)); [|split; eassumption|exact H].
  intros x e x' [Hkx Hixx] Hstep. split; [eapply kinv_sub_expire_one; eauto|eapply idx_sub_expire_one; eauto].
Qed.

(** * every operation *)

Lemma idx_sub_handle s m s' : kinv s -> idx_sub s -> validate_basic m = true -> handle s m = Ok s' -> idx_sub s'.
Proof.
  intros Hi Hix Hv H. destruct m; simpl in H.
  - eapply idx_sub_keeps; [eapply h_prov_register_keeps; exact H|reflexivity|exact Hix].
  - eapply idx_sub_keeps; [eapply h_prov_update_keeps; exact H|reflexivity|exact Hix].
  - eapply idx_sub_keeps; [eapply h_node_register_keeps; exact H|reflexivity|exact Hix].
  - eapply idx_sub_keeps; [eapply h_node_update_details_keeps; exact H|reflexivity|exact Hix].
  - eapply idx_sub_keeps; [eapply h_node_update_status_keeps; exact H|reflexivity|exact Hix].
  - eapply idx_h_node_subscribe; eauto. apply Hi.
  - eapply idx_sub_keeps; [eapply h_plan_create_keeps; exact H|reflexivity|exact Hix].
  - eapply idx_sub_keeps; [eapply h_plan_update_status_keeps; exact H|reflexivity|exact Hix].
  - eapply idx_sub_keeps; [eapply h_plan_link_keeps; exact H|reflexivity|exact Hix].
  - eapply idx_sub_keeps; [eapply h_plan_unlink_keeps; exact H|reflexivity|exact Hix].
  - eapply idx_h_plan_subscribe; eauto. apply Hi.
  - eapply idx_h_sub_cancel; eauto.
  - eapply idx_h_sub_allocate; eauto.
  - eapply idx_sub_keeps; [eapply h_sess_start_keeps; exact H|reflexivity|exact Hix].
  - eapply idx_sub_keeps; [eapply h_sess_update_keeps; exact H|reflexivity|exact Hix].
  - eapply idx_sub_keeps; [eapply h_sess_end_keeps; exact H|reflexivity|exact Hix].
  - eapply idx_sub_keeps; [eapply h_swap_keeps; exact H|reflexivity|exact Hix].
Qed.

Theorem idx_sub_step s o s' : kinv s -> idx_sub s -> step s o = OOk s' -> idx_sub s'.
Proof.
  intros Hi Hix. unfold step. destruct o.
  - destruct (begin_block _) as [x| |] eqn:H; try discriminate. intros [= <-].
    unfold begin_block in H. apply rbind_ok in H as (s1 & Hm & H). apply mint_begin_block_keeps in Hm.
    eapply idx_sub_begin_block; [| |exact H].
    + eapply (kinv_other [GMint; GNow] s); [| | | | | |exact Hi]; [keeps_solve|..]; reflexivity.
    + eapply (idx_sub_keeps [GMint; GNow] s); [keeps_solve|reflexivity|exact Hix].
  - unfold run_tx. destruct (validate_basic m) eqn:Hv; [|discriminate].
    destruct (handle _ m) as [x| |] eqn:H; try discriminate. intros [= <-].
    eapply idx_sub_handle; [| |exact Hv|exact H]; [apply kinv_clear; exact Hi|eapply idx_sub_frame; [..|exact Hix]; reflexivity].
  - destruct (forallb pchange_valid _); [|discriminate]. intros [= <-]. apply (fold_left_inv idx_sub).
    + intros y c Hy. eapply idx_sub_keeps; [apply apply_pchange_keeps|reflexivity|exact Hy].
    + eapply idx_sub_frame; [..|exact Hix]; reflexivity.
  - destruct (end_block _) as [se| |] eqn:H; try discriminate. intros [= <-].
    unfold end_block in H. apply rbind_ok in H as (s1 & H1 & H). apply rbind_ok in H as (s2 & H2 & H3).
    assert (Hi0 : kinv (clear_events s)) by (apply kinv_clear; exact Hi).
    assert (Hix0 : idx_sub (clear_events s)) by (eapply idx_sub_frame; [..|exact Hix]; reflexivity).
    pose proof (kinv_node_end_block _ _ Hi0 H1) as Hi1.
    assert (Hix1 : idx_sub s1) by (eapply idx_sub_keeps; [eapply node_end_block_keeps; exact H1|reflexivity|exact Hix0]).
    destruct (idx_session_end_block _ _ Hi1 Hix1 H2) as [Hi2 Hix2].
    destruct (idx_sub_end_block _ _ Hi2 Hix2 H3) as [Hi3 Hix3].
    eapply idx_sub_frame; [..|exact Hix3]; reflexivity.
Qed.

Lemma idx_sub_init g : idx_sub (init g).
Proof.
  assert (H0 : idx_sub (empty_state (g_cfg g) (g_params g))).
  { split; simpl; intros; try set_solver; try (rewrite lookup_empty in *; discriminate).
    all: split; [set_solver|]; intros; repeat match goal with H : exists _, _ |- _ => destruct H end;
      repeat match goal with H : _ /\ _ |- _ => destruct H end; rewrite lookup_empty in *; discriminate. }
  unfold init.
  assert (H1 : idx_sub (fold_left (fun s '(a, (d, v)) => set_bal (s <| supply ::= fun c => coins_add c d v |>) a d (bal s a d + v))
                       (g_balances g) (empty_state (g_cfg g) (g_params g)))).
  { apply (fold_left_inv idx_sub); [|exact H0]. intros x [a [d v]] Hx. eapply idx_sub_frame; [..|exact Hx]; reflexivity. }
  destruct (g_mint g) as [[[mx mn] rc] inf]. eapply idx_sub_frame; [..|exact H1]; reflexivity.
Qed.

Theorem idx_sub_run ops : forall s i s', kinv s -> idx_sub s -> run_from s ops i = RunOk s' -> idx_sub s'.
Proof.
  induction ops as [|o ops IH]; simpl; intros s i s' Hi Hix H.
  - injection H as <-. exact Hix.
  - destruct (step s o) eqn:E; try discriminate.
    + eapply IH; [eapply kinv_step; eauto|eapply idx_sub_step; eauto|exact H].
    + eapply IH; [apply kinv_clear; exact Hi|eapply idx_sub_frame; [..|exact Hix]; reflexivity|exact H].
Qed.
