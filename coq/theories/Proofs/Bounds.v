(* C11: node prices stay within the governance bounds.  At every point of a block,
   for each of the four bound vectors, either the vector was modified in this block
   (the end-blocker will sweep) or every node is within it; the end-blocker's sweep
   clamps every node, so at every block boundary all nodes are within all bounds. *)
From Hub Require Import Base.Prelude Base.Arith Model.Types Model.Keeper Model.Handlers Model.Hooks Model.Step.
From Hub Require Import Proofs.Tactics Proofs.Sorting Proofs.Frames Proofs.Money Proofs.KeysInv.

Definition within_max (prices bound : coins) : Prop := forall d a, bound !! d = Some a -> amount_of prices d <= a.
Definition within_min (prices bound : coins) : Prop := forall d a, bound !! d = Some a -> a <= amount_of prices d.

Lemma elem_of_coins_list (c : coins) d a : (d, a) ∈ coins_list c <-> c !! d = Some a.
Proof. unfold coins_list. rewrite elem_of_sort_by, elem_of_map_to_list. reflexivity. Qed.

Lemma NoDup_coins_list_fst (c : coins) : NoDup (map fst (coins_list c)).
Proof.
  unfold coins_list.
  assert (Hp : map fst (sort_by (fun x y : denom * Z => N.compare x.1 y.1) (map_to_list c)) ≡ₚ map fst (map_to_list c))
    by (apply (fmap_Permutation fst), sort_by_perm).
  rewrite Hp. apply NoDup_fst_map_to_list.
Qed.

Lemma bounds_ok_spec p mx mn : bounds_ok p mx mn = true <-> within_max p mx /\ within_min p mn.
Proof.
  unfold bounds_ok. rewrite andb_true_iff, !forallb_forall. unfold within_max, within_min. split.
  - intros [H1 H2]. split; intros d a Hd.
    + specialize (H1 (d, a)). rewrite <- elem_of_list_In, elem_of_coins_list in H1. specialize (H1 Hd). simpl in H1.
      apply negb_true_iff, Z.ltb_ge in H1. exact H1.
    + specialize (H2 (d, a)). rewrite <- elem_of_list_In, elem_of_coins_list in H2. specialize (H2 Hd). simpl in H2.
      apply negb_true_iff, Z.ltb_ge in H2. exact H2.
  - intros [H1 H2]. split; intros [d a] Hin; rewrite <- elem_of_list_In, elem_of_coins_list in Hin; simpl;
      apply negb_true_iff, Z.ltb_ge; eauto.
Qed.

(** * clamping *)

Lemma clamp_max_amount l : forall p d,
  NoDup (map fst l) ->
  amount_of (fold_left (fun p '(d, a) => if a <? amount_of p d then coins_set p d a else p) l p) d =
  match list_find (fun x => x.1 = d) l with
  | Some (_, (_, a)) => Z.min (amount_of p d) a
  | None => amount_of p d
  end.
Proof.
  induction l as [|[d0 a0] l IH]; intros p d Hnd; [reflexivity|].
  apply NoDup_cons in Hnd as [Hn0 Hnd]. cbn [fold_left]. rewrite IH by exact Hnd.
  cbn [list_find]. destruct (decide ((d0, a0).1 = d)) as [E|E]; simpl in E.
  - subst d0. simpl.
    assert (Hnf : list_find (fun x : denom * Z => x.1 = d) l = None).
    { apply list_find_None. apply Forall_forall. intros [d1 a1] Hin E1. simpl in E1. subst d1.
      apply Hn0. apply elem_of_list_fmap. exists (d, a1). auto. }
    rewrite Hnf. destruct (a0 <? amount_of p d) eqn:E2.
    + rewrite amount_of_coins_set. rewrite bool_decide_eq_true_2 by reflexivity. lia.
    + lia.
  - simpl. destruct (list_find (fun x : denom * Z => x.1 = d) l) as [[i [d1 a1]]|] eqn:Ef; simpl.
    + destruct (a0 <? amount_of p d0); [|reflexivity]. rewrite amount_of_coins_set, bool_decide_eq_false_2 by exact E. reflexivity.
    + destruct (a0 <? amount_of p d0); [|reflexivity]. rewrite amount_of_coins_set, bool_decide_eq_false_2 by exact E. reflexivity.
Qed.

Lemma clamp_min_amount l : forall p d,
  NoDup (map fst l) ->
  amount_of (fold_left (fun p '(d, a) => if amount_of p d <? a then coins_set p d a else p) l p) d =
  match list_find (fun x => x.1 = d) l with
  | Some (_, (_, a)) => Z.max (amount_of p d) a
  | None => amount_of p d
  end.
Proof.
  induction l as [|[d0 a0] l IH]; intros p d Hnd; [reflexivity|].
  apply NoDup_cons in Hnd as [Hn0 Hnd]. cbn [fold_left]. rewrite IH by exact Hnd.
  cbn [list_find]. destruct (decide ((d0, a0).1 = d)) as [E|E]; simpl in E.
  - subst d0. simpl.
    assert (Hnf : list_find (fun x : denom * Z => x.1 = d) l = None).
    { apply list_find_None. apply Forall_forall. intros [d1 a1] Hin E1. simpl in E1. subst d1.
      apply Hn0. apply elem_of_list_fmap. exists (d, a1). auto. }
    rewrite Hnf. destruct (amount_of p d <? a0) eqn:E2.
    + rewrite amount_of_coins_set. rewrite bool_decide_eq_true_2 by reflexivity. lia.
    + lia.
  - simpl. destruct (list_find (fun x : denom * Z => x.1 = d) l) as [[i [d1 a1]]|] eqn:Ef; simpl.
    + destruct (amount_of p d0 <? a0); [|reflexivity]. rewrite amount_of_coins_set, bool_decide_eq_false_2 by exact E. reflexivity.
    + destruct (amount_of p d0 <? a0); [|reflexivity]. rewrite amount_of_coins_set, bool_decide_eq_false_2 by exact E. reflexivity.
Qed.

Lemma list_find_coins_list (c : coins) d :
  match list_find (fun x : denom * Z => x.1 = d) (coins_list c) with
  | Some (_, (_, a)) => c !! d = Some a
  | None => c !! d = None
  end.
Proof.
  destruct (list_find _ _) as [[i [d1 a1]]|] eqn:Ef.
  - apply list_find_Some in Ef as (Hl & E & _). simpl in E. subst d1.
    apply elem_of_coins_list. eapply elem_of_list_lookup_2; eauto.
  - apply list_find_None in Ef. rewrite Forall_forall in Ef.
    destruct (c !! d) as [a|] eqn:E; [|reflexivity]. exfalso. apply (Ef (d, a)); [|reflexivity].
    apply elem_of_coins_list. exact E.
Qed.

Lemma amount_of_clamp_max p b d :
  amount_of (clamp_max p b) d = match b !! d with Some a => Z.min (amount_of p d) a | None => amount_of p d end.
Proof.
  unfold clamp_max. rewrite clamp_max_amount by apply NoDup_coins_list_fst.
  pose proof (list_find_coins_list b d) as H. destruct (list_find _ _) as [[i [d1 a1]]|]; rewrite H; reflexivity.
Qed.
Lemma amount_of_clamp_min p b d :
  amount_of (clamp_min p b) d = match b !! d with Some a => Z.max (amount_of p d) a | None => amount_of p d end.
Proof.
  unfold clamp_min. rewrite clamp_min_amount by apply NoDup_coins_list_fst.
  pose proof (list_find_coins_list b d) as H. destruct (list_find _ _) as [[i [d1 a1]]|]; rewrite H; reflexivity.
Qed.

(* minimum and maximum agree where both bound a denomination (DESIGN section 5.1) *)
Definition bounds_consistent (mx mn : coins) : Prop := forall d a b, mn !! d = Some a -> mx !! d = Some b -> a <= b.

(* the price vector after the sweep of one node *)
Definition swept (fmax fmin : bool) (p mx mn : coins) : coins :=
  let p1 := if fmax then clamp_max p mx else p in
  if fmin then clamp_min p1 mn else p1.

Lemma swept_within fmax fmin p mx mn :
  bounds_consistent mx mn ->
  (fmax = true \/ within_max p mx) -> (fmin = true \/ within_min p mn) ->
  within_max (swept fmax fmin p mx mn) mx /\ within_min (swept fmax fmin p mx mn) mn.
Proof.
  intros Hc Hmax Hmin. unfold swept, within_max, within_min.
  split; intros d a Hd.
  - destruct fmin.
    + rewrite amount_of_clamp_min. destruct fmax.
      * rewrite amount_of_clamp_max, Hd. destruct (mn !! d) as [b|] eqn:Eb; [specialize (Hc _ _ _ Eb Hd)|]; lia.
      * destruct Hmax as [?|Hmax]; [discriminate|]. specialize (Hmax _ _ Hd).
        destruct (mn !! d) as [b|] eqn:Eb; [specialize (Hc _ _ _ Eb Hd)|]; lia.
    + destruct fmax.
      * rewrite amount_of_clamp_max, Hd. lia.
      * destruct Hmax as [?|Hmax]; [discriminate|]. exact (Hmax _ _ Hd).
  - destruct fmin.
    + rewrite amount_of_clamp_min, Hd. lia.
    + destruct Hmin as [?|Hmin]; [discriminate|]. specialize (Hmin _ _ Hd). destruct fmax.
      * rewrite amount_of_clamp_max. destruct (mx !! d) as [b|] eqn:Eb; [specialize (Hc _ _ _ Hd Eb)|]; lia.
      * exact Hmin.
Qed.

(** * the invariant *)

Definition node_of (s : state) (n : node) : Prop :=
  exists a, node_act s !! a = Some n \/ node_inact s !! a = Some n.

Record bounds_inv (s : state) : Prop := {
  b_max_gb : m_max_gb (modified s) = true \/ forall n, node_of s n -> within_max (nd_gb_prices n) (p_max_gb (pars s));
  b_min_gb : m_min_gb (modified s) = true \/ forall n, node_of s n -> within_min (nd_gb_prices n) (p_min_gb (pars s));
  b_max_hr : m_max_hr (modified s) = true \/ forall n, node_of s n -> within_max (nd_hr_prices n) (p_max_hr (pars s));
  b_min_hr : m_min_hr (modified s) = true \/ forall n, node_of s n -> within_min (nd_hr_prices n) (p_min_hr (pars s)) }.

(* all nodes within all four bounds *)
Definition all_within (s : state) : Prop :=
  forall n, node_of s n ->
    within_max (nd_gb_prices n) (p_max_gb (pars s)) /\ within_min (nd_gb_prices n) (p_min_gb (pars s)) /\
    within_max (nd_hr_prices n) (p_max_hr (pars s)) /\ within_min (nd_hr_prices n) (p_min_hr (pars s)).

Lemma all_within_bounds_inv s : all_within s -> bounds_inv s.
Proof. intros H. split; right; intros n Hn; apply (H n Hn). Qed.

Lemma bounds_inv_no_flags s : bounds_inv s -> modified s = no_flags -> all_within s.
Proof.
  intros [A B C D] E n Hn. rewrite E in *. simpl in *.
  destruct A as [?|A]; [discriminate|]. destruct B as [?|B]; [discriminate|].
  destruct C as [?|C]; [discriminate|]. destruct D as [?|D]; [discriminate|]. auto.
Qed.

(* a step that leaves nodes and parameters alone *)
Lemma bounds_inv_frame s s' :
  node_act s' = node_act s -> node_inact s' = node_inact s -> pars s' = pars s -> modified s' = modified s ->
  bounds_inv s -> bounds_inv s'.
Proof.
  intros E1 E2 E3 E4 [A B C D]. unfold node_of in *.
  split; rewrite E3, E4; [destruct A as [?|W]|destruct B as [?|W]|destruct C as [?|W]|destruct D as [?|W]]; auto;
    right; intros n Hn; apply W; rewrite <- E1, <- E2; exact Hn.
Qed.

Lemma bounds_inv_keeps T s s' :
  keeps T s s' -> touched GNode T = false -> touched GPar T = false -> bounds_inv s -> bounds_inv s'.
Proof.
  intros (_ & _ & _ & _ & _ & _ & Kn & _ & _ & Kp & _) T1 T2. rewrite T1 in Kn. rewrite T2 in Kp. simpl in *.
  apply bounds_inv_frame; tauto.
Qed.

(* every node of [s'] has, for each price kind, either the prices of some node of [s] or validated prices *)
Lemma bounds_inv_nodes s s' :
  pars s' = pars s -> modified s' = modified s ->
  (forall n', node_of s' n' ->
     ((exists n, node_of s n /\ nd_gb_prices n' = nd_gb_prices n) \/
      (within_max (nd_gb_prices n') (p_max_gb (pars s)) /\ within_min (nd_gb_prices n') (p_min_gb (pars s)))) /\
     ((exists n, node_of s n /\ nd_hr_prices n' = nd_hr_prices n) \/
      (within_max (nd_hr_prices n') (p_max_hr (pars s)) /\ within_min (nd_hr_prices n') (p_min_hr (pars s))))) ->
  bounds_inv s -> bounds_inv s'.
Proof.
  intros E3 E4 Hn [A B C D].
  split; rewrite E3, E4; [destruct A as [?|W]|destruct B as [?|W]|destruct C as [?|W]|destruct D as [?|W]]; auto;
    right; intros n' Hn'; destruct (Hn n' Hn') as [[(n & Hin & G1)|(W1 & W2)] [(m & Hin2 & G2)|(W3 & W4)]]; auto;
    rewrite ?G1, ?G2; apply W; assumption.
Qed.

Lemma node_of_set_node s n s' n' : set_node s n = Ok s' -> node_of s' n' -> n' = n \/ node_of s n'.
Proof.
  unfold set_node, node_of. destruct (nd_status n); try discriminate; intros [= <-] [a [H|H]]; simpl in H.
  - apply lookup_insert_Some in H as [[_ ->]|[_ H]]; eauto.
  - eauto.
  - eauto.
  - apply lookup_insert_Some in H as [[_ ->]|[_ H]]; eauto.
Qed.

Lemma node_of_get_node s a n : get_node s a = Some n -> node_of s n.
Proof. intros H. apply get_node_cases in H as [H|[_ H]]; exists a; auto. Qed.

Lemma node_of_sub s s' :
  (forall a n, node_act s' !! a = Some n -> node_act s !! a = Some n) ->
  (forall a n, node_inact s' !! a = Some n -> node_inact s !! a = Some n) ->
  forall n, node_of s' n -> node_of s n.
Proof. intros H1 H2 n [a [H|H]]; exists a; auto. Qed.

Lemma bounds_h_node_register s from gb hr url s' : bounds_inv s -> h_node_register s from gb hr url = Ok s' -> bounds_inv s'.
Proof.
  intros Hb H. unfold h_node_register in H. res_inv.
  match goal with Hf : fund_pool s _ _ = Ok ?y |- _ => apply fund_pool_keeps in Hf;
    assert (E1 : node_act y = node_act s) by keeps_solve; assert (E2 : node_inact y = node_inact s) by keeps_solve;
    assert (E3 : pars y = pars s) by keeps_solve; assert (E4 : modified y = modified s) by keeps_solve end.
  match goal with Hs : set_node ?y ?n = Ok ?z |- _ => pose proof (set_node_keeps _ _ _ Hs) as Hk;
    assert (E5 : pars z = pars s) by keeps_solve; assert (E6 : modified z = modified s) by keeps_solve end.
  apply (bounds_inv_nodes s); [exact E5|exact E6| |exact Hb].
  intros n' Hn'. change (node_of x3 n') in Hn'.
  match goal with Hs : set_node _ _ = Ok _ |- _ => apply (node_of_set_node _ _ _ _ Hs) in Hn' as [->|Hn'] end.
  - simpl. match goal with Hg : valid_gb_prices s _ = true, Hh : valid_hr_prices s _ = true |- _ =>
      apply bounds_ok_spec in Hg, Hh end. split; right; assumption.
  - assert (node_of s n') by (destruct Hn' as [a Ha]; exists a; rewrite <- E1, <- E2; exact Ha).
    split; left; exists n'; auto.
Qed.

Lemma bounds_h_node_update_details s from gb hr url s' : bounds_inv s -> h_node_update_details s from gb hr url = Ok s' -> bounds_inv s'.
Proof.
  intros Hb H. unfold h_node_update_details in H.
  apply rbind_ok in H as (u1 & Hg & H). apply ensure_ok in Hg. apply rbind_ok in H as (u2 & Hh & H). apply ensure_ok in Hh.
  destruct (get_node s (ta_bytes from)) as [n|] eqn:Hn; [|discriminate].
  apply rbind_ok in H as (s1 & Hset & H). injection H as <-.
  pose proof (set_node_keeps _ _ _ Hset) as Hk.
  apply (bounds_inv_nodes s); [keeps_solve|keeps_solve| |exact Hb].
  intros n' Hn'. change (node_of s1 n') in Hn'.
  apply (node_of_set_node _ _ _ _ Hset) in Hn' as [->|Hn']; [|split; left; exists n'; auto].
  pose proof (node_of_get_node _ _ _ Hn) as Hin. simpl. split.
  - destruct gb as [l|]; [right; apply bounds_ok_spec in Hg; exact Hg|left; exists n; auto].
  - destruct hr as [l|]; [right; apply bounds_ok_spec in Hh; exact Hh|left; exists n; auto].
Qed.

Lemma bounds_h_node_update_status s from st s' : bounds_inv s -> h_node_update_status s from st = Ok s' -> bounds_inv s'.
Proof.
  intros Hb H. unfold h_node_update_status in H. destruct (get_node s (ta_bytes from)) as [n|] eqn:Hn; [|discriminate].
  match type of H with (let '(s3, n1) := ?p in _) = _ => destruct p as [s3 n1] eqn:Ep end.
  apply rbind_ok in H as (s4 & Hset & H). injection H as <-.
  pose proof (set_node_keeps _ _ _ Hset) as Hk.
  assert (G : pars s3 = pars s /\ modified s3 = modified s /\ (forall m, node_of s3 m -> node_of s m) /\
              nd_gb_prices n1 = nd_gb_prices n /\ nd_hr_prices n1 = nd_hr_prices n).
  { repeat case_bool_decide; injection Ep as <- <-; simpl; repeat split; auto;
      apply node_of_sub; simpl; intros a m Hm; try apply lookup_delete_Some in Hm as [_ Hm]; auto. }
  destruct G as (G1 & G2 & G3 & G4 & G5).
  apply (bounds_inv_nodes s); [simpl; keeps_solve|simpl; keeps_solve| |exact Hb].
  intros n' Hn'. change (node_of s4 n') in Hn'.
  apply (node_of_set_node _ _ _ _ Hset) in Hn' as [->|Hn']; [|split; left; exists n'; auto].
  pose proof (node_of_get_node _ _ _ Hn) as Hin.
  split; left; exists n; split; auto; repeat case_bool_decide; simpl; auto.
Qed.

(** * the end-blocker *)

Lemma rfold_inv_rest {A S} (P : list A -> S -> Prop) (f : S -> A -> res S) l : forall s s',
  (forall x rest s s', P (x :: rest) s -> f s x = Ok s' -> P rest s') ->
  P l s -> rfold f l s = Ok s' -> P [] s'.
Proof.
  induction l as [|x l IH]; simpl; intros s s' Hf Hp H.
  - injection H as <-. exact Hp.
  - apply rbind_ok in H as (s1 & H1 & H2). eapply IH; [exact Hf| |exact H2]. eapply Hf; eauto.
Qed.

Definition node_within (p : params) (n : node) : Prop :=
  within_max (nd_gb_prices n) (p_max_gb p) /\ within_min (nd_gb_prices n) (p_min_gb p) /\
  within_max (nd_hr_prices n) (p_max_hr p) /\ within_min (nd_hr_prices n) (p_min_hr p).

Definition params_consistent (p : params) : Prop :=
  bounds_consistent (p_max_gb p) (p_min_gb p) /\ bounds_consistent (p_max_hr p) (p_min_hr p).

Lemma node_of_all_nodes s n : node_of s n -> n ∈ all_nodes s.
Proof.
  intros [a [H|H]]; unfold all_nodes; apply elem_of_app; [left|right];
    apply elem_of_list_fmap; exists (a, n); (split; [reflexivity|]); apply elem_of_sort_by, elem_of_map_to_list; exact H.
Qed.

Lemma sweep_all_within s s1 :
  kinv_node s -> bounds_inv s -> params_consistent (pars s) ->
  rfold node_sweep_one (all_nodes s) s = Ok s1 ->
  pars s1 = pars s /\ forall n, node_of s1 n -> node_within (pars s) n.
Proof.
  intros Hk Hb [Hc1 Hc2] H.
  set (P := fun (rest : list node) (x : state) =>
              pars x = pars s /\ modified x = modified s /\
              (kinv_node x /\ same_dom (node_act x) (node_act s) /\ same_dom (node_inact x) (node_inact s)) /\
              (forall n, n ∈ rest -> n ∈ all_nodes s) /\
              (forall m, node_of x m -> node_within (pars s) m \/ m ∈ rest)).
  assert (HP : P [] s1).
  { eapply (rfold_inv_rest P); [| |exact H].
    - intros n rest x x' (E1 & E2 & J & Hin & Hall) Hstep.
      assert (Hn0 : n ∈ all_nodes s) by (apply Hin; left).
      pose proof (kinv_node_sweep_one s x n x' Hk Hn0 J Hstep) as J'.
      unfold node_sweep_one in Hstep. apply rbind_ok in Hstep as (x1 & Hset & Hstep). injection Hstep as <-. apply must_ok in Hset.
      pose proof (set_node_keeps _ _ _ Hset) as Hkp.
      split; [simpl; keeps_solve|]. split; [simpl; keeps_solve|]. split; [exact J'|].
      split; [intros m Hm; apply Hin; right; exact Hm|].
      intros m Hm. change (node_of x1 m) in Hm.
      destruct J as (Jk & Ja & Ji).
      assert (Hof : node_of s n).
      { destruct (elem_of_all_nodes _ _ Hk Hn0) as [[? _]|[? _]]; eexists; eauto. }
      assert (Hnew : forall n', nd_gb_prices n' = swept (m_max_gb (modified s)) (m_min_gb (modified s)) (nd_gb_prices n) (p_max_gb (pars s)) (p_min_gb (pars s)) ->
                                nd_hr_prices n' = swept (m_max_hr (modified s)) (m_min_hr (modified s)) (nd_hr_prices n) (p_max_hr (pars s)) (p_min_hr (pars s)) ->
                                node_within (pars s) n').
      { intros n' G1 G2. destruct Hb as [A B C D]. unfold node_within. rewrite G1, G2.
        destruct (swept_within (m_max_gb (modified s)) (m_min_gb (modified s)) (nd_gb_prices n) (p_max_gb (pars s)) (p_min_gb (pars s)) Hc1) as [W1 W2].
        { destruct A as [?|A]; auto. }
        { destruct B as [?|B]; auto. }
        destruct (swept_within (m_max_hr (modified s)) (m_min_hr (modified s)) (nd_hr_prices n) (p_max_hr (pars s)) (p_min_hr (pars s)) Hc2) as [W3 W4].
        { destruct C as [?|C]; auto. }
        { destruct D as [?|D]; auto. }
        auto. }
      (* which entries of the new state are old ones *)
      assert (Hold : node_within (pars s) m \/ (node_of x m /\ nd_addr m <> nd_addr n)).
      { unfold set_node in Hset. simpl in Hset.
        destruct (elem_of_all_nodes _ _ Hk Hn0) as [[Hs0 Hst]|[Hs0 Hst]]; rewrite Hst in Hset; injection Hset as <-;
          destruct Hm as [a [Ha|Ha]]; simpl in Ha.
        - apply lookup_insert_Some in Ha as [[_ <-]|[Hne Ha]].
          + left. apply Hnew; simpl; rewrite E1, E2; reflexivity.
          + right. split; [exists a; auto|]. rewrite (proj1 (k_na _ Jk _ _ Ha)). congruence.
        - right. split; [exists a; auto|]. rewrite (proj1 (k_ni _ Jk _ _ Ha)). intros Heq. rewrite Heq in Ha.
          assert (Hin1 : is_Some (node_act x !! nd_addr n)) by (apply Ja; eauto).
          destruct Hin1 as [y Hy]. rewrite (k_nd _ Jk _ _ Hy) in Ha. discriminate.
        - right. split; [exists a; auto|]. rewrite (proj1 (k_na _ Jk _ _ Ha)). intros Heq. rewrite Heq in Ha.
          assert (Hin1 : is_Some (node_inact x !! nd_addr n)) by (apply Ji; eauto).
          destruct Hin1 as [y Hy]. rewrite (k_nd _ Jk _ _ Ha) in Hy. discriminate.
        - apply lookup_insert_Some in Ha as [[_ <-]|[Hne Ha]].
          + left. apply Hnew; simpl; rewrite E1, E2; reflexivity.
          + right. split; [exists a; auto|]. rewrite (proj1 (k_ni _ Jk _ _ Ha)). congruence. }
      destruct Hold as [?|[Hx Hne]]; [auto|].
      destruct (Hall m Hx) as [?|Hr]; [auto|]. apply elem_of_cons in Hr as [->|Hr]; [congruence|auto].
    - split; [reflexivity|]. split; [reflexivity|]. split; [split; [exact Hk|split; intros k; reflexivity]|].
      split; [auto|]. intros m Hm. right. apply node_of_all_nodes. exact Hm. }
  destruct HP as (E1 & _ & _ & _ & Hall). split; [exact E1|].
  intros n Hn. destruct (Hall n Hn) as [?|Hr]; [assumption|inversion Hr].
Qed.

Lemma within_node_expire_one s e s' p :
  (forall n, node_of s n -> node_within p n) -> node_expire_one s e = Ok s' ->
  (forall n, node_of s' n -> node_within p n) /\ pars s' = pars s.
Proof.
  intros Hall H. unfold node_expire_one in H. destruct (get_node s e.2) as [n|] eqn:Hg; [|discriminate].
  apply rbind_ok in H as (s2 & Hset & H). injection H as <-. apply must_ok in Hset.
  pose proof (set_node_keeps _ _ _ Hset) as Hk. split; [|simpl; keeps_solve].
  intros m Hm. change (node_of s2 m) in Hm. apply (node_of_set_node _ _ _ _ Hset) in Hm as [->|Hm].
  - pose proof (Hall n (node_of_get_node _ _ _ Hg)) as W. exact W.
  - apply Hall. revert Hm. apply node_of_sub; simpl; intros a x Hx; [apply lookup_delete_Some in Hx as [_ Hx]|]; exact Hx.
Qed.

Lemma bounds_node_end_block s s' :
  kinv_node s -> bounds_inv s -> params_consistent (pars s) -> node_end_block s = Ok s' ->
  (m_max_gb (modified s) || m_min_gb (modified s) || m_max_hr (modified s) || m_min_hr (modified s) = false \/
   forall n, node_of s' n -> node_within (pars s) n) /\ pars s' = pars s /\ modified s' = modified s /\
  (m_max_gb (modified s) || m_min_gb (modified s) || m_max_hr (modified s) || m_min_hr (modified s) = false -> bounds_inv s').
Proof.
  intros Hk Hb Hc H. pose proof (node_end_block_keeps _ _ H) as Hkp.
  assert (Ep : pars s' = pars s) by keeps_solve. assert (Em : modified s' = modified s) by keeps_solve.
  unfold node_end_block in H. apply rbind_ok in H as (s1 & Hsw & H).
  destruct (m_max_gb (modified s) || m_min_gb (modified s) || m_max_hr (modified s) || m_min_hr (modified s)) eqn:Ef.
  - destruct (sweep_all_within _ _ Hk Hb Hc Hsw) as [E1 Hall].
    assert (G : (forall n, node_of s' n -> node_within (pars s) n) /\ pars s' = pars s1).
    { eapply (rfold_inv (fun x => (forall n, node_of x n -> node_within (pars s) n) /\ pars x = pars s1)); [|split; [exact Hall|reflexivity]|exact H].
      intros x e x' [Hx Hp] Hstep. destruct (within_node_expire_one _ _ _ _ Hx Hstep) as [A B]. split; [exact A|congruence]. }
    split; [right; apply G|]. split; [exact Ep|]. split; [exact Em|]. discriminate.
  - injection Hsw as <-. split; [left; reflexivity|]. split; [exact Ep|]. split; [exact Em|]. intros _.
    apply orb_false_iff in Ef as [Ef E4]. apply orb_false_iff in Ef as [Ef E3]. apply orb_false_iff in Ef as [E1 E2].
    assert (Hall : forall n, node_of s n -> node_within (pars s) n).
    { destruct Hb as [A B C D]. rewrite E1 in A. rewrite E2 in B. rewrite E3 in C. rewrite E4 in D.
      destruct A as [?|A]; [discriminate|]. destruct B as [?|B]; [discriminate|].
      destruct C as [?|C]; [discriminate|]. destruct D as [?|D]; [discriminate|]. intros n Hn. unfold node_within. auto. }
    assert (G : (forall n, node_of s' n -> node_within (pars s) n) /\ pars s' = pars s).
    { eapply (rfold_inv (fun x => (forall n, node_of x n -> node_within (pars s) n) /\ pars x = pars s)); [|split; [exact Hall|reflexivity]|exact H].
      intros x e x' [Hx Hp] Hstep. destruct (within_node_expire_one _ _ _ _ Hx Hstep) as [A B]. split; [exact A|congruence]. }
    apply all_within_bounds_inv. intros n Hn. rewrite Ep. apply (proj1 G n Hn).
Qed.

Lemma bounds_apply_pchange s c : bounds_inv s -> bounds_inv (apply_pchange s c).
Proof.
  intros [A B C D]. destruct c; try (split; simpl; assumption).
  - split; simpl; auto.
  - split; simpl; auto.
  - split; simpl; auto.
  - split; simpl; auto.
Qed.

(* the parameter sets stay in the domain of DESIGN section 5.1 at the end of every block *)
Definition wf_op11 (s : state) (o : op) : Prop :=
  match o with OEnd => params_consistent (pars s) | _ => True end.

Theorem bounds_step s o s' :
  kinv s -> bounds_inv s -> wf_op11 s o -> step s o = OOk s' ->
  bounds_inv s' /\ (o = OEnd -> all_within s').
Proof.
  intros Hi Hb Hwf. unfold step. destruct o.
  - destruct (begin_block _) as [x| |] eqn:H; try discriminate. intros [= <-]. split; [|discriminate].
    apply begin_block_keeps in H. eapply (bounds_inv_frame s); [..|exact Hb]; keeps_solve.
  - unfold run_tx. destruct (validate_basic m); [|discriminate].
    destruct (handle _ m) as [x| |] eqn:H; try discriminate. intros [= <-]. split; [|discriminate].
    assert (Hb0 : bounds_inv (clear_events s)) by (eapply (bounds_inv_frame s); [..|exact Hb]; reflexivity).
    destruct m; simpl in H.
    all: try (eapply bounds_inv_keeps; [first [apply h_prov_register_keeps in H | apply h_prov_update_keeps in H
           | apply h_node_subscribe_keeps in H | apply h_plan_create_keeps in H | apply h_plan_update_status_keeps in H
           | apply h_plan_link_keeps in H | apply h_plan_unlink_keeps in H | apply h_plan_subscribe_keeps in H
           | apply h_sub_cancel_keeps in H | apply h_sub_allocate_keeps in H | apply h_sess_start_keeps in H
           | apply h_sess_update_keeps in H | apply h_sess_end_keeps in H | apply h_swap_keeps in H]; exact H
         |reflexivity|reflexivity|exact Hb0]).
    + eapply bounds_h_node_register; eauto.
    + eapply bounds_h_node_update_details; eauto.
    + eapply bounds_h_node_update_status; eauto.
  - destruct (forallb pchange_valid _); [|discriminate]. intros [= <-]. split; [|discriminate]. apply fold_left_inv; [intros; apply bounds_apply_pchange; assumption|].
    eapply (bounds_inv_frame s); [..|exact Hb]; reflexivity.
  - destruct (end_block _) as [se| |] eqn:H; try discriminate. intros [= <-].
    unfold end_block in H. apply rbind_ok in H as (s1 & H1 & H). apply rbind_ok in H as (s2 & H2 & H3).
    assert (Hk0 : kinv_node (clear_events s)) by (eapply kinv_node_frame; [..|apply (ki_node _ Hi)]; reflexivity).
    assert (Hb0 : bounds_inv (clear_events s)) by (eapply (bounds_inv_frame s); [..|exact Hb]; reflexivity).
    destruct (bounds_node_end_block _ _ Hk0 Hb0 Hwf H1) as (Hcase & Ep & Em & Hnf).
    apply session_end_block_keeps in H2. apply sub_end_block_keeps in H3.
    assert (Hall : all_within (se <| modified := no_flags |>)).
    { assert (Hall1 : forall n, node_of s1 n -> node_within (pars s) n).
      { destruct Hcase as [Ef|Hall1]; [|exact Hall1].
        specialize (Hnf Ef). intros n Hn.
        assert (Em1 : modified s1 = no_flags).
        { rewrite Em. simpl. apply orb_false_iff in Ef as [Ef E4]. apply orb_false_iff in Ef as [Ef E3]. apply orb_false_iff in Ef as [E1 E2].
          simpl in E1, E2, E3, E4. revert E1 E2 E3 E4. destruct (modified s) as [f1 f2 f3 f4]; simpl. intros -> -> -> ->. reflexivity. }
        pose proof (bounds_inv_no_flags _ Hnf Em1 n Hn) as W. rewrite Ep in W. exact W. }
      intros n Hn. assert (Hn1 : node_of s1 n).
      { destruct Hn as [a Ha]. exists a. simpl in Ha.
        replace (node_act s1) with (node_act se) by keeps_solve. replace (node_inact s1) with (node_inact se) by keeps_solve. exact Ha. }
      specialize (Hall1 n Hn1). simpl. replace (pars se) with (pars s) by (symmetry; keeps_solve). exact Hall1. }
    split; [apply all_within_bounds_inv; exact Hall|intros _; exact Hall].
Qed.

(* genesis: no node yet *)
Lemma bounds_inv_init g : bounds_inv (init g).
Proof.
  apply all_within_bounds_inv. intros n [a Ha]. exfalso.
  assert (E : node_act (init g) = ∅ /\ node_inact (init g) = ∅).
  { unfold init. destruct (g_mint g) as [[[mx mn] rc] inf]. simpl.
    apply (fold_left_inv (fun x => node_act x = ∅ /\ node_inact x = ∅)); [|split; reflexivity].
    intros x [b [d v]] Hx. exact Hx. }
  destruct E as [E1 E2]. rewrite E1, E2, !lookup_empty in Ha. destruct Ha; discriminate.
Qed.

Fixpoint wf_ops11 (s : state) (ops : list op) : Prop :=
  match ops with
  | [] => True
  | o :: ops' =>
      wf_op11 s o /\
      match step s o with OOk s' => wf_ops11 s' ops' | ORejected => wf_ops11 (clear_events s) ops' | OHalt => True end
  end.

Theorem bounds_run ops : forall s i s',
  kinv s -> bounds_inv s -> wf_ops11 s ops -> run_from s ops i = RunOk s' -> bounds_inv s'.
Proof.
  induction ops as [|o ops IH]; simpl; intros s i s' Hi Hb Hwf H.
  - injection H as <-. exact Hb.
  - destruct Hwf as [Hw1 Hw2]. destruct (step s o) as [s1| |] eqn:E; try discriminate.
    + destruct (bounds_step _ _ _ Hi Hb Hw1 E) as [Hb1 _]. eapply IH; [eapply kinv_step; eauto|exact Hb1|exact Hw2|exact H].
    + eapply IH; [apply kinv_clear; exact Hi| |exact Hw2|exact H]. eapply (bounds_inv_frame s); [..|exact Hb]; reflexivity.
Qed.
