(* Extraction of the paginator model (Model/Paginate.v) to OCaml.  ExtrOcamlBasic only:
   bool, option, unit, list, prod map to OCaml's native types; N / positive stay the extracted inductives. *)
From Coq Require Import Extraction ExtrOcamlBasic.
From Hub Require Import Base.Prelude Model.Paginate.
Extraction Language OCaml.
Set Warnings "-extraction-opaque-accessed".
Extraction "pages_model.ml" paginate filtered_paginate good_cb defect_cb total_cb key_ltb nil_request.
