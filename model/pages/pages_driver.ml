(* Runner of the extracted paginator model.  Reads the file written by `harness pages`; for every
   R line recomputes the result from the S line (store entries with hit flags) of the current query with
   Pages_model.paginate / filtered_paginate and prints the R line with the model's result.  All other lines
   are echoed.  Also checks the hypotheses of the theorems on every S line (strictly ascending, non-empty
   keys) and prints a "E ..." line when they do not hold.  Glue only: parsing, number conversion, printing. *)
module P = Pages_model

let rec pos_of_z (z : Z.t) : P.positive =
  if Z.equal z Z.one then P.XH
  else
    let q = Z.shift_right z 1 in
    if Z.testbit z 0 then P.XI (pos_of_z q) else P.XO (pos_of_z q)
let n_of_z (z : Z.t) : P.n = if Z.sign z = 0 then P.N0 else P.Npos (pos_of_z z)
let rec z_of_pos = function
  | P.XH -> Z.one
  | P.XO p -> Z.shift_left (z_of_pos p) 1
  | P.XI p -> Z.succ (Z.shift_left (z_of_pos p) 1)
let z_of_n = function P.N0 -> Z.zero | P.Npos p -> z_of_pos p

let byte_tab = Array.init 256 (fun i -> n_of_z (Z.of_int i))
let hexdigit c = match c with
  | '0'..'9' -> Char.code c - 48 | 'a'..'f' -> Char.code c - 87 | 'A'..'F' -> Char.code c - 55
  | _ -> failwith "bad hex"
let bytes_of_hex (s : string) : P.n list =
  List.init (String.length s / 2) (fun i -> byte_tab.(hexdigit s.[2*i] * 16 + hexdigit s.[2*i+1]))
let hex_of_bytes (l : P.n list) : string =
  String.concat "" (List.map (fun x -> Printf.sprintf "%02x" (Z.to_int (z_of_n x))) l)

let key_of_tok = function
  | "-" -> None
  | "e" -> Some []
  | s -> Some (bytes_of_hex s)
let tok_of_key = function
  | None -> "-"
  | Some [] -> "e"
  | Some k -> hex_of_bytes k

(* an entry's value: (hit, id) *)
type v = bool * string

let split3 s =
  let i = String.index s ':' in
  let j = String.index_from s (i + 1) ':' in
  (String.sub s 0 i, String.sub s (i + 1) (j - i - 1), String.sub s (j + 1) (String.length s - j - 1))

let () =
  let ic = open_in Sys.argv.(1) in
  let pag = ref 'P' in
  let items : (P.n list * v) list ref = ref [] in
  (try
    while true do
      let line = input_line ic in
      let n = String.length line in
      if n >= 2 && line.[0] = 'Q' && line.[1] = ' ' then begin
        (match String.split_on_char ' ' line with
         | _ :: _ :: p :: _ -> pag := p.[0]
         | _ -> failwith "bad Q line");
        print_endline line
      end else if n >= 1 && line.[0] = 'S' && (n = 1 || line.[1] = ' ') then begin
        let toks = List.filter (fun s -> s <> "") (String.split_on_char ' ' line) in
        items := List.map (fun t -> let (k, h, id) = split3 t in (bytes_of_hex k, (h = "1", id))) (List.tl toks);
        print_endline line;
        let rec chk = function
          | (k1, _) :: (((k2, _) :: _) as rest) ->
              if not (P.key_ltb k1 k2) then print_endline "E store entries not strictly ascending";
              chk rest
          | _ -> () in
        chk !items;
        List.iter (fun (k, _) -> if k = [] then print_endline "E empty key") !items
      end else if n >= 2 && line.[0] = 'R' && line.[1] = ' ' then begin
        let i =
          let rec find j = if j + 4 > n then failwith "bad R line" else if String.sub line j 4 = " => " then j else find (j + 1) in
          find 0 in
        let reqs = String.sub line 2 (i - 2) in
        let req =
          if reqs = "nil" then P.nil_request
          else match String.split_on_char ' ' reqs with
            | [k; off; lim; ct; rv] ->
                { P.pr_key = key_of_tok k; P.pr_offset = n_of_z (Z.of_string off); P.pr_limit = n_of_z (Z.of_string lim);
                  P.pr_count_total = (ct = "1"); P.pr_reverse = (rv = "1") }
            | _ -> failwith "bad request" in
        let res =
          if !pag = 'P' then P.paginate (P.total_cb (fun _ (v : v) -> snd v)) !items req
          else if !pag = 'D' then P.filtered_paginate (P.defect_cb (fun _ (v : v) -> fst v) (fun _ (v : v) -> snd v)) !items req
          else P.filtered_paginate (P.good_cb (fun _ (v : v) -> fst v) (fun _ (v : v) -> snd v)) !items req in
        let out = match res with
          | P.Ok (page, resp) ->
              Printf.sprintf "ok %s|%s|%s" (String.concat "," page) (tok_of_key resp.P.next_key) (Z.to_string (z_of_n resp.P.total))
          | P.Err -> "err"
          | P.Panic -> "panic" in
        Printf.printf "R %s => %s\n" reqs out
      end else print_endline line
    done
  with End_of_file -> ());
  close_in ic
