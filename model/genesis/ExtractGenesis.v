(* Extraction of the executable model to OCaml.  ExtrOcamlBasic only:
   bool, option, unit, list, prod, sumbool are mapped to OCaml's native types;
   Z, N, positive, nat, string, ascii stay the extracted inductives. *)
From Coq Require Import Extraction ExtrOcamlBasic.
From Hub Require Import Base.Prelude Base.Arith Model.Types Model.Keeper Model.Handlers Model.Hooks Model.Step Model.Domain Model.Dump Model.Genesis.
Extraction Language OCaml.
Set Warnings "-extraction-opaque-accessed".
Extraction "hub_model.ml" genesis_roundtrip step init run empty_state wf_op_c03_b wf_genesis_b amount_for_bytes proportion ceil_to1 validate_basic
  d_bank d_supply d_deposits d_prov_act d_prov_inact d_node_act d_node_inact d_plan_act d_plan_inact
  d_subs d_allocs d_payouts d_sessions d_swaps d_inflations d_node_q d_node_plan d_plan_prov d_sub_q d_sub_acc
  d_sub_node d_sub_plan d_pay_q d_pay_acc d_pay_node d_pay_acc_node d_sess_q d_sess_acc d_sess_node d_sess_sub
  d_sess_alloc d_coins.
