
type __ = Obj.t

val xorb : bool -> bool -> bool

val negb : bool -> bool

type nat =
| O
| S of nat

val option_map : ('a1 -> 'a2) -> 'a1 option -> 'a2 option

type ('a, 'b) sum =
| Inl of 'a
| Inr of 'b

val fst : ('a1 * 'a2) -> 'a1

val snd : ('a1 * 'a2) -> 'a2

val length : 'a1 list -> nat

val app : 'a1 list -> 'a1 list -> 'a1 list

type comparison =
| Eq
| Lt
| Gt

val compOpp : comparison -> comparison

type compareSpecT =
| CompEqT
| CompLtT
| CompGtT

val compareSpec2Type : comparison -> compareSpecT

type 'a compSpecT = compareSpecT

val compSpec2Type : 'a1 -> 'a1 -> comparison -> 'a1 compSpecT

val id : __ -> __

type 'a sig0 = 'a
  (* singleton inductive, whose constructor was exist *)



type uint =
| Nil
| D0 of uint
| D1 of uint
| D2 of uint
| D3 of uint
| D4 of uint
| D5 of uint
| D6 of uint
| D7 of uint
| D8 of uint
| D9 of uint

type signed_int =
| Pos of uint
| Neg of uint

val nzhead : uint -> uint

val unorm : uint -> uint

val norm : signed_int -> signed_int

val revapp : uint -> uint -> uint

val rev : uint -> uint

module Little :
 sig
  val succ : uint -> uint
 end

type uint0 =
| Nil0
| D10 of uint0
| D11 of uint0
| D12 of uint0
| D13 of uint0
| D14 of uint0
| D15 of uint0
| D16 of uint0
| D17 of uint0
| D18 of uint0
| D19 of uint0
| Da of uint0
| Db of uint0
| Dc of uint0
| Dd of uint0
| De of uint0
| Df of uint0

type signed_int0 =
| Pos0 of uint0
| Neg0 of uint0

val nzhead0 : uint0 -> uint0

val unorm0 : uint0 -> uint0

val norm0 : signed_int0 -> signed_int0

val revapp0 : uint0 -> uint0 -> uint0

val rev0 : uint0 -> uint0

module Coq_Little :
 sig
  val succ : uint0 -> uint0
 end

type uint1 =
| UIntDecimal of uint
| UIntHexadecimal of uint0

type signed_int1 =
| IntDecimal of signed_int
| IntHexadecimal of signed_int0

val sub : nat -> nat -> nat

type positive =
| XI of positive
| XO of positive
| XH

type n =
| N0
| Npos of positive

type z =
| Z0
| Zpos of positive
| Zneg of positive

val compose : ('a2 -> 'a3) -> ('a1 -> 'a2) -> 'a1 -> 'a3

val flip : ('a1 -> 'a2 -> 'a3) -> 'a2 -> 'a1 -> 'a3

type reflect =
| ReflectT
| ReflectF

val iff_reflect : bool -> reflect

module Nat :
 sig
  type t = nat

  val zero : nat

  val one : nat

  val two : nat

  val succ : nat -> nat

  val pred : nat -> nat

  val add : nat -> nat -> nat

  val double : nat -> nat

  val mul : nat -> nat -> nat

  val sub : nat -> nat -> nat

  val eqb : nat -> nat -> bool

  val leb : nat -> nat -> bool

  val ltb : nat -> nat -> bool

  val compare : nat -> nat -> comparison

  val max : nat -> nat -> nat

  val min : nat -> nat -> nat

  val even : nat -> bool

  val odd : nat -> bool

  val pow : nat -> nat -> nat

  val tail_add : nat -> nat -> nat

  val tail_addmul : nat -> nat -> nat -> nat

  val tail_mul : nat -> nat -> nat

  val of_uint_acc : uint -> nat -> nat

  val of_uint : uint -> nat

  val of_hex_uint_acc : uint0 -> nat -> nat

  val of_hex_uint : uint0 -> nat

  val of_num_uint : uint1 -> nat

  val to_little_uint : nat -> uint -> uint

  val to_uint : nat -> uint

  val to_little_hex_uint : nat -> uint0 -> uint0

  val to_hex_uint : nat -> uint0

  val to_num_uint : nat -> uint1

  val to_num_hex_uint : nat -> uint1

  val of_int : signed_int -> nat option

  val of_hex_int : signed_int0 -> nat option

  val of_num_int : signed_int1 -> nat option

  val to_int : nat -> signed_int

  val to_hex_int : nat -> signed_int0

  val to_num_int : nat -> signed_int1

  val divmod : nat -> nat -> nat -> nat -> nat * nat

  val div : nat -> nat -> nat

  val modulo : nat -> nat -> nat

  val gcd : nat -> nat -> nat

  val square : nat -> nat

  val sqrt_iter : nat -> nat -> nat -> nat -> nat

  val sqrt : nat -> nat

  val log2_iter : nat -> nat -> nat -> nat -> nat

  val log2 : nat -> nat

  val iter : nat -> ('a1 -> 'a1) -> 'a1 -> 'a1

  val div2 : nat -> nat

  val testbit : nat -> nat -> bool

  val shiftl : nat -> nat -> nat

  val shiftr : nat -> nat -> nat

  val bitwise : (bool -> bool -> bool) -> nat -> nat -> nat -> nat

  val coq_land : nat -> nat -> nat

  val coq_lor : nat -> nat -> nat

  val ldiff : nat -> nat -> nat

  val coq_lxor : nat -> nat -> nat

  val recursion : 'a1 -> (nat -> 'a1 -> 'a1) -> nat -> 'a1

  val eq_dec : nat -> nat -> bool

  val leb_spec0 : nat -> nat -> reflect

  val ltb_spec0 : nat -> nat -> reflect

  module Private_OrderTac :
   sig
    module IsTotal :
     sig
     end

    module Tac :
     sig
     end
   end

  module Private_Tac :
   sig
   end

  module Private_Dec :
   sig
    val max_case_strong :
      nat -> nat -> (nat -> nat -> __ -> 'a1 -> 'a1) -> (__ -> 'a1) -> (__ ->
      'a1) -> 'a1

    val max_case :
      nat -> nat -> (nat -> nat -> __ -> 'a1 -> 'a1) -> 'a1 -> 'a1 -> 'a1

    val max_dec : nat -> nat -> bool

    val min_case_strong :
      nat -> nat -> (nat -> nat -> __ -> 'a1 -> 'a1) -> (__ -> 'a1) -> (__ ->
      'a1) -> 'a1

    val min_case :
      nat -> nat -> (nat -> nat -> __ -> 'a1 -> 'a1) -> 'a1 -> 'a1 -> 'a1

    val min_dec : nat -> nat -> bool
   end

  val max_case_strong : nat -> nat -> (__ -> 'a1) -> (__ -> 'a1) -> 'a1

  val max_case : nat -> nat -> 'a1 -> 'a1 -> 'a1

  val max_dec : nat -> nat -> bool

  val min_case_strong : nat -> nat -> (__ -> 'a1) -> (__ -> 'a1) -> 'a1

  val min_case : nat -> nat -> 'a1 -> 'a1 -> 'a1

  val min_dec : nat -> nat -> bool

  module Private_Parity :
   sig
   end

  module Private_NZPow :
   sig
   end

  module Private_NZSqrt :
   sig
   end

  val sqrt_up : nat -> nat

  val log2_up : nat -> nat

  module Private_NZDiv :
   sig
   end

  val lcm : nat -> nat -> nat

  val eqb_spec : nat -> nat -> reflect

  val b2n : bool -> nat

  val setbit : nat -> nat -> nat

  val clearbit : nat -> nat -> nat

  val ones : nat -> nat

  val lnot : nat -> nat -> nat

  val coq_Even_Odd_dec : nat -> bool

  type coq_EvenT = nat

  type coq_OddT = nat

  val coq_EvenT_0 : coq_EvenT

  val coq_EvenT_2 : nat -> coq_EvenT -> coq_EvenT

  val coq_OddT_1 : coq_OddT

  val coq_OddT_2 : nat -> coq_OddT -> coq_OddT

  val coq_EvenT_S_OddT : nat -> coq_EvenT -> coq_OddT

  val coq_OddT_S_EvenT : nat -> coq_OddT -> coq_EvenT

  val even_EvenT : nat -> coq_EvenT

  val odd_OddT : nat -> coq_OddT

  val coq_Even_EvenT : nat -> coq_EvenT

  val coq_Odd_OddT : nat -> coq_OddT

  val coq_EvenT_OddT_dec : nat -> (coq_EvenT, coq_OddT) sum

  val coq_OddT_EvenT_rect :
    (nat -> coq_EvenT -> 'a2 -> 'a1) -> 'a2 -> (nat -> coq_OddT -> 'a1 ->
    'a2) -> nat -> coq_OddT -> 'a1

  val coq_EvenT_OddT_rect :
    (nat -> coq_EvenT -> 'a2 -> 'a1) -> 'a2 -> (nat -> coq_OddT -> 'a1 ->
    'a2) -> nat -> coq_EvenT -> 'a2
 end

module Pos :
 sig
  type mask =
  | IsNul
  | IsPos of positive
  | IsNeg
 end

module Coq_Pos :
 sig
  val succ : positive -> positive

  val add : positive -> positive -> positive

  val add_carry : positive -> positive -> positive

  val pred_double : positive -> positive

  val pred : positive -> positive

  type mask = Pos.mask =
  | IsNul
  | IsPos of positive
  | IsNeg

  val succ_double_mask : mask -> mask

  val double_mask : mask -> mask

  val double_pred_mask : positive -> mask

  val sub_mask : positive -> positive -> mask

  val sub_mask_carry : positive -> positive -> mask

  val mul : positive -> positive -> positive

  val iter : ('a1 -> 'a1) -> 'a1 -> positive -> 'a1

  val compare_cont : comparison -> positive -> positive -> comparison

  val compare : positive -> positive -> comparison

  val eqb : positive -> positive -> bool

  val of_succ_nat : nat -> positive

  val eq_dec : positive -> positive -> bool
 end

module N :
 sig
  val succ_double : n -> n

  val double : n -> n

  val sub : n -> n -> n

  val compare : n -> n -> comparison

  val eqb : n -> n -> bool

  val leb : n -> n -> bool

  val ltb : n -> n -> bool

  val pos_div_eucl : positive -> n -> n * n

  val eq_dec : n -> n -> bool
 end

module Z :
 sig
  val double : z -> z

  val succ_double : z -> z

  val pred_double : z -> z

  val pos_sub : positive -> positive -> z

  val add : z -> z -> z

  val opp : z -> z

  val sub : z -> z -> z

  val mul : z -> z -> z

  val pow_pos : z -> positive -> z

  val pow : z -> z -> z

  val compare : z -> z -> comparison

  val leb : z -> z -> bool

  val ltb : z -> z -> bool

  val eqb : z -> z -> bool

  val abs : z -> z

  val of_nat : nat -> z

  val of_N : n -> z

  val pos_div_eucl : positive -> z -> z * z

  val div_eucl : z -> z -> z * z

  val div : z -> z -> z

  val modulo : z -> z -> z

  val quotrem : z -> z -> z * z

  val quot : z -> z -> z

  val rem : z -> z -> z

  val even : z -> bool

  val eq_dec : z -> z -> bool
 end

val z_lt_dec : z -> z -> bool

val z_le_dec : z -> z -> bool

val rev1 : 'a1 list -> 'a1 list

val list_eq_dec : ('a1 -> 'a1 -> bool) -> 'a1 list -> 'a1 list -> bool

val map : ('a1 -> 'a2) -> 'a1 list -> 'a2 list

val fold_left : ('a1 -> 'a2 -> 'a1) -> 'a2 list -> 'a1 -> 'a1

val fold_right : ('a2 -> 'a1 -> 'a1) -> 'a1 -> 'a2 list -> 'a1

val forallb : ('a1 -> bool) -> 'a1 list -> bool

val skipn : nat -> 'a1 list -> 'a1 list

type ascii =
| Ascii of bool * bool * bool * bool * bool * bool * bool * bool

type string =
| EmptyString
| String of ascii * string

val length0 : string -> nat

type decision = bool

val decide : decision -> bool

type ('a, 'b) relDecision = 'a -> 'b -> decision

val decide_rel : ('a1, 'a2) relDecision -> 'a1 -> 'a2 -> decision

type 'a empty = 'a

val empty0 : 'a1 empty -> 'a1

type 'a union = 'a -> 'a -> 'a

val union0 : 'a1 union -> 'a1 -> 'a1 -> 'a1

type 'a difference = 'a -> 'a -> 'a

val difference0 : 'a1 difference -> 'a1 -> 'a1 -> 'a1

type ('a, 'b) singleton = 'a -> 'b

val singleton0 : ('a1, 'a2) singleton -> 'a1 -> 'a2

type ('a, 'b) filter = __ -> ('a -> decision) -> 'b -> 'b

val filter0 : ('a1, 'a2) filter -> ('a1 -> decision) -> 'a2 -> 'a2

type 'm mRet = __ -> __ -> 'm

val mret : 'a1 mRet -> 'a2 -> 'a1

type 'm mBind = __ -> __ -> (__ -> 'm) -> 'm -> 'm

val mbind : 'a1 mBind -> ('a2 -> 'a1) -> 'a1 -> 'a1

type 'm fMap = __ -> __ -> (__ -> __) -> 'm -> 'm

val fmap : 'a1 fMap -> ('a2 -> 'a3) -> 'a1 -> 'a1

type 'm oMap = __ -> __ -> (__ -> __ option) -> 'm -> 'm

val omap : 'a1 oMap -> ('a2 -> 'a3 option) -> 'a1 -> 'a1

type ('k, 'a, 'm) lookup = 'k -> 'm -> 'a option

val lookup0 : ('a1, 'a2, 'a3) lookup -> 'a1 -> 'a3 -> 'a2 option

type ('k, 'a, 'm) singletonM = 'k -> 'a -> 'm

val singletonM0 : ('a1, 'a2, 'a3) singletonM -> 'a1 -> 'a2 -> 'a3

type ('k, 'a, 'm) insert = 'k -> 'a -> 'm -> 'm

val insert0 : ('a1, 'a2, 'a3) insert -> 'a1 -> 'a2 -> 'a3 -> 'a3

type ('k, 'm) delete = 'k -> 'm -> 'm

val delete0 : ('a1, 'a2) delete -> 'a1 -> 'a2 -> 'a2

type ('k, 'a, 'm) partialAlter = ('a option -> 'a option) -> 'k -> 'm -> 'm

val partial_alter :
  ('a1, 'a2, 'a3) partialAlter -> ('a2 option -> 'a2 option) -> 'a1 -> 'a3 ->
  'a3

type 'm merge =
  __ -> __ -> __ -> (__ option -> __ option -> __ option) -> 'm -> 'm -> 'm

val merge0 :
  'a1 merge -> ('a2 option -> 'a3 option -> 'a4 option) -> 'a1 -> 'a1 -> 'a1

type ('a, 'm) unionWith = ('a -> 'a -> 'a option) -> 'm -> 'm -> 'm

val union_with :
  ('a1, 'a2) unionWith -> ('a1 -> 'a1 -> 'a1 option) -> 'a2 -> 'a2 -> 'a2

type ('a, 'm) differenceWith = ('a -> 'a -> 'a option) -> 'm -> 'm -> 'm

val difference_with :
  ('a1, 'a2) differenceWith -> ('a1 -> 'a1 -> 'a1 option) -> 'a2 -> 'a2 -> 'a2

type ('a, 'c) elements = 'c -> 'a list

val elements0 : ('a1, 'a2) elements -> 'a2 -> 'a1 list

val not_dec : decision -> decision

val and_dec : decision -> decision -> decision

val or_dec : decision -> decision -> decision

val impl_dec : decision -> decision -> decision

val bool_eq_dec : (bool, bool) relDecision

val unit_eq_dec : (unit, unit) relDecision

val prod_eq_dec :
  ('a1, 'a1) relDecision -> ('a2, 'a2) relDecision -> ('a1 * 'a2, 'a1 * 'a2)
  relDecision

val uncurry_dec : ('a1 -> 'a2 -> decision) -> ('a1 * 'a2) -> decision

val bool_decide : decision -> bool

val from_option : ('a1 -> 'a2) -> 'a2 -> 'a1 option -> 'a2

val is_Some_dec : 'a1 option -> decision

val option_eq_dec :
  ('a1, 'a1) relDecision -> ('a1 option, 'a1 option) relDecision

val option_ret : __ -> __ option

val option_bind : (__ -> __ option) -> __ option -> __ option

val option_fmap : (__ -> __) -> __ option -> __ option

val option_union_with : ('a1, 'a1 option) unionWith

val option_difference_with : ('a1, 'a1 option) differenceWith

module Coq_Nat :
 sig
  type t = nat

  val zero : nat

  val one : nat

  val two : nat

  val succ : nat -> nat

  val pred : nat -> nat

  val add : nat -> nat -> nat

  val double : nat -> nat

  val mul : nat -> nat -> nat

  val sub : nat -> nat -> nat

  val eqb : nat -> nat -> bool

  val leb : nat -> nat -> bool

  val ltb : nat -> nat -> bool

  val compare : nat -> nat -> comparison

  val max : nat -> nat -> nat

  val min : nat -> nat -> nat

  val even : nat -> bool

  val odd : nat -> bool

  val pow : nat -> nat -> nat

  val tail_add : nat -> nat -> nat

  val tail_addmul : nat -> nat -> nat -> nat

  val tail_mul : nat -> nat -> nat

  val of_uint_acc : uint -> nat -> nat

  val of_uint : uint -> nat

  val of_hex_uint_acc : uint0 -> nat -> nat

  val of_hex_uint : uint0 -> nat

  val of_num_uint : uint1 -> nat

  val to_little_uint : nat -> uint -> uint

  val to_uint : nat -> uint

  val to_little_hex_uint : nat -> uint0 -> uint0

  val to_hex_uint : nat -> uint0

  val to_num_uint : nat -> uint1

  val to_num_hex_uint : nat -> uint1

  val of_int : signed_int -> nat option

  val of_hex_int : signed_int0 -> nat option

  val of_num_int : signed_int1 -> nat option

  val to_int : nat -> signed_int

  val to_hex_int : nat -> signed_int0

  val to_num_int : nat -> signed_int1

  val divmod : nat -> nat -> nat -> nat -> nat * nat

  val div : nat -> nat -> nat

  val modulo : nat -> nat -> nat

  val gcd : nat -> nat -> nat

  val square : nat -> nat

  val sqrt_iter : nat -> nat -> nat -> nat -> nat

  val sqrt : nat -> nat

  val log2_iter : nat -> nat -> nat -> nat -> nat

  val log2 : nat -> nat

  val iter : nat -> ('a1 -> 'a1) -> 'a1 -> 'a1

  val div2 : nat -> nat

  val testbit : nat -> nat -> bool

  val shiftl : nat -> nat -> nat

  val shiftr : nat -> nat -> nat

  val bitwise : (bool -> bool -> bool) -> nat -> nat -> nat -> nat

  val coq_land : nat -> nat -> nat

  val coq_lor : nat -> nat -> nat

  val ldiff : nat -> nat -> nat

  val coq_lxor : nat -> nat -> nat

  val recursion : 'a1 -> (nat -> 'a1 -> 'a1) -> nat -> 'a1

  val eq_dec : nat -> nat -> bool

  val leb_spec0 : nat -> nat -> reflect

  val ltb_spec0 : nat -> nat -> reflect

  module Private_OrderTac :
   sig
    module IsTotal :
     sig
     end

    module Tac :
     sig
     end
   end

  module Private_Tac :
   sig
   end

  module Private_Dec :
   sig
    val max_case_strong :
      nat -> nat -> (nat -> nat -> __ -> 'a1 -> 'a1) -> (__ -> 'a1) -> (__ ->
      'a1) -> 'a1

    val max_case :
      nat -> nat -> (nat -> nat -> __ -> 'a1 -> 'a1) -> 'a1 -> 'a1 -> 'a1

    val max_dec : nat -> nat -> bool

    val min_case_strong :
      nat -> nat -> (nat -> nat -> __ -> 'a1 -> 'a1) -> (__ -> 'a1) -> (__ ->
      'a1) -> 'a1

    val min_case :
      nat -> nat -> (nat -> nat -> __ -> 'a1 -> 'a1) -> 'a1 -> 'a1 -> 'a1

    val min_dec : nat -> nat -> bool
   end

  val max_case_strong : nat -> nat -> (__ -> 'a1) -> (__ -> 'a1) -> 'a1

  val max_case : nat -> nat -> 'a1 -> 'a1 -> 'a1

  val max_dec : nat -> nat -> bool

  val min_case_strong : nat -> nat -> (__ -> 'a1) -> (__ -> 'a1) -> 'a1

  val min_case : nat -> nat -> 'a1 -> 'a1 -> 'a1

  val min_dec : nat -> nat -> bool

  module Private_Parity :
   sig
   end

  module Private_NZPow :
   sig
   end

  module Private_NZSqrt :
   sig
   end

  val sqrt_up : nat -> nat

  val log2_up : nat -> nat

  module Private_NZDiv :
   sig
   end

  val lcm : nat -> nat -> nat

  val eqb_spec : nat -> nat -> reflect

  val b2n : bool -> nat

  val setbit : nat -> nat -> nat

  val clearbit : nat -> nat -> nat

  val ones : nat -> nat

  val lnot : nat -> nat -> nat

  val coq_Even_Odd_dec : nat -> bool

  type coq_EvenT = nat

  type coq_OddT = nat

  val coq_EvenT_0 : coq_EvenT

  val coq_EvenT_2 : nat -> coq_EvenT -> coq_EvenT

  val coq_OddT_1 : coq_OddT

  val coq_OddT_2 : nat -> coq_OddT -> coq_OddT

  val coq_EvenT_S_OddT : nat -> coq_EvenT -> coq_OddT

  val coq_OddT_S_EvenT : nat -> coq_OddT -> coq_EvenT

  val even_EvenT : nat -> coq_EvenT

  val odd_OddT : nat -> coq_OddT

  val coq_Even_EvenT : nat -> coq_EvenT

  val coq_Odd_OddT : nat -> coq_OddT

  val coq_EvenT_OddT_dec : nat -> (coq_EvenT, coq_OddT) sum

  val coq_OddT_EvenT_rect :
    (nat -> coq_EvenT -> 'a2 -> 'a1) -> 'a2 -> (nat -> coq_OddT -> 'a1 ->
    'a2) -> nat -> coq_OddT -> 'a1

  val coq_EvenT_OddT_rect :
    (nat -> coq_EvenT -> 'a2 -> 'a1) -> 'a2 -> (nat -> coq_OddT -> 'a1 ->
    'a2) -> nat -> coq_EvenT -> 'a2
 end

module Coq0_Pos :
 sig
  val eq_dec : (positive, positive) relDecision

  val app : positive -> positive -> positive

  val reverse_go : positive -> positive -> positive

  val reverse : positive -> positive

  val dup : positive -> positive
 end

val n_eq_dec : (n, n) relDecision

module Coq_Z :
 sig
  val eq_dec : (z, z) relDecision

  val le_dec : (z, z) relDecision

  val lt_dec : (z, z) relDecision
 end

val list_filter : ('a1 -> decision) -> 'a1 list -> 'a1 list

val replicate : nat -> 'a1 -> 'a1 list

val last : 'a1 list -> 'a1 option

val list_fmap : (__ -> __) -> __ list -> __ list

val list_omap : (__ -> __ option) -> __ list -> __ list

val list_bind : (__ -> __ list) -> __ list -> __ list

val mapM : 'a1 mBind -> 'a1 mRet -> ('a2 -> 'a1) -> 'a2 list -> 'a1

val elem_of_list_dec : ('a1, 'a1) relDecision -> ('a1, 'a1 list) relDecision

val positives_flatten_go : positive list -> positive -> positive

val positives_flatten : positive list -> positive

val positives_unflatten_go :
  positive -> positive list -> positive -> positive list option

val positives_unflatten : positive -> positive list option

val list_eq_dec0 : ('a1, 'a1) relDecision -> ('a1 list, 'a1 list) relDecision

val list_eq_nil_dec : 'a1 list -> decision

val noDup_dec : ('a1, 'a1) relDecision -> 'a1 list -> decision

val forall_Exists_dec : ('a1 -> bool) -> 'a1 list -> bool

val forall_dec : ('a1 -> decision) -> 'a1 list -> decision

type 'a countable = { encode : ('a -> positive);
                      decode : (positive -> 'a option) }

val prod_encode_fst : positive -> positive

val prod_encode_snd : positive -> positive

val prod_encode : positive -> positive -> positive

val prod_decode_fst : positive -> positive option

val prod_decode_snd : positive -> positive option

val prod_countable :
  ('a1, 'a1) relDecision -> 'a1 countable -> ('a2, 'a2) relDecision -> 'a2
  countable -> ('a1 * 'a2) countable

val list_countable :
  ('a1, 'a1) relDecision -> 'a1 countable -> 'a1 list countable

val n_countable : n countable

val z_countable : z countable

type ('k, 'a, 'm) finMapToList = 'm -> ('k * 'a) list

val map_to_list : ('a1, 'a2, 'a3) finMapToList -> 'a3 -> ('a1 * 'a2) list

val diag_None :
  ('a1 option -> 'a2 option -> 'a3 option) -> 'a1 option -> 'a2 option -> 'a3
  option

val map_insert : ('a1, 'a2, 'a3) partialAlter -> ('a1, 'a2, 'a3) insert

val map_delete : ('a1, 'a2, 'a3) partialAlter -> ('a1, 'a3) delete

val map_singleton :
  ('a1, 'a2, 'a3) partialAlter -> 'a3 empty -> ('a1, 'a2, 'a3) singletonM

val list_to_map :
  ('a1, 'a2, 'a3) insert -> 'a3 empty -> ('a1 * 'a2) list -> 'a3

val map_union_with : 'a1 merge -> ('a2, 'a1) unionWith

val map_difference_with : 'a1 merge -> ('a2, 'a1) differenceWith

val map_union : 'a1 merge -> 'a1 union

val map_difference : 'a1 merge -> 'a1 difference

val map_Forall_dec :
  'a2 fMap -> (__ -> ('a1, __, 'a2) lookup) -> (__ -> 'a2 empty) -> (__ ->
  ('a1, __, 'a2) partialAlter) -> 'a2 oMap -> 'a2 merge -> (__ -> ('a1, __,
  'a2) finMapToList) -> ('a1, 'a1) relDecision -> ('a1 -> 'a3 -> decision) ->
  'a2 -> decision

type 'munit mapset' =
  'munit
  (* singleton inductive, whose constructor was Mapset *)

val mapset_car : 'a1 mapset' -> 'a1

val mapset_empty : (__ -> 'a1 empty) -> 'a1 mapset' empty

val mapset_singleton :
  (__ -> 'a2 empty) -> (__ -> ('a1, __, 'a2) partialAlter) -> ('a1, 'a2
  mapset') singleton

val mapset_union : 'a1 merge -> 'a1 mapset' union

val mapset_difference : 'a1 merge -> 'a1 mapset' difference

val mapset_elements :
  (__ -> ('a1, __, 'a2) finMapToList) -> ('a1, 'a2 mapset') elements

val mapset_elem_of_dec :
  (__ -> ('a1, __, 'a2) lookup) -> ('a1, 'a2 mapset') relDecision

type 'a pmap_raw =
| PLeaf
| PNode of 'a option * 'a pmap_raw * 'a pmap_raw

val pmap_raw_eq_dec :
  ('a1, 'a1) relDecision -> ('a1 pmap_raw, 'a1 pmap_raw) relDecision

val pNode' : 'a1 option -> 'a1 pmap_raw -> 'a1 pmap_raw -> 'a1 pmap_raw

val pempty_raw : 'a1 pmap_raw empty

val plookup_raw : (positive, 'a1, 'a1 pmap_raw) lookup

val psingleton_raw : positive -> 'a1 -> 'a1 pmap_raw

val ppartial_alter_raw :
  ('a1 option -> 'a1 option) -> positive -> 'a1 pmap_raw -> 'a1 pmap_raw

val pfmap_raw : ('a1 -> 'a2) -> 'a1 pmap_raw -> 'a2 pmap_raw

val pto_list_raw :
  positive -> 'a1 pmap_raw -> (positive * 'a1) list -> (positive * 'a1) list

val pomap_raw : ('a1 -> 'a2 option) -> 'a1 pmap_raw -> 'a2 pmap_raw

val pmerge_raw :
  ('a1 option -> 'a2 option -> 'a3 option) -> 'a1 pmap_raw -> 'a2 pmap_raw ->
  'a3 pmap_raw

type 'a pmap =
  'a pmap_raw
  (* singleton inductive, whose constructor was PMap *)

val pmap_car : 'a1 pmap -> 'a1 pmap_raw

val pmap_eq_dec : ('a1, 'a1) relDecision -> ('a1 pmap, 'a1 pmap) relDecision

val pempty : 'a1 pmap empty

val plookup : (positive, 'a1, 'a1 pmap) lookup

val ppartial_alter : (positive, 'a1, 'a1 pmap) partialAlter

val pfmap : (__ -> __) -> __ pmap -> __ pmap

val pto_list : (positive, 'a1, 'a1 pmap) finMapToList

val pomap : (__ -> __ option) -> __ pmap -> __ pmap

val pmerge :
  (__ option -> __ option -> __ option) -> __ pmap -> __ pmap -> __ pmap

type ('k, 'a) gmap =
  'a pmap
  (* singleton inductive, whose constructor was GMap *)

val gmap_car :
  ('a1, 'a1) relDecision -> 'a1 countable -> ('a1, 'a2) gmap -> 'a2 pmap

val gmap_eq_eq :
  ('a1, 'a1) relDecision -> 'a1 countable -> ('a2, 'a2) relDecision -> (('a1,
  'a2) gmap, ('a1, 'a2) gmap) relDecision

val gmap_lookup :
  ('a1, 'a1) relDecision -> 'a1 countable -> ('a1, 'a2, ('a1, 'a2) gmap)
  lookup

val gmap_empty :
  ('a1, 'a1) relDecision -> 'a1 countable -> ('a1, 'a2) gmap empty

val gmap_partial_alter :
  ('a1, 'a1) relDecision -> 'a1 countable -> ('a1, 'a2, ('a1, 'a2) gmap)
  partialAlter

val gmap_fmap :
  ('a1, 'a1) relDecision -> 'a1 countable -> (__ -> __) -> ('a1, __) gmap ->
  ('a1, __) gmap

val gmap_omap :
  ('a1, 'a1) relDecision -> 'a1 countable -> (__ -> __ option) -> ('a1, __)
  gmap -> ('a1, __) gmap

val gmap_merge :
  ('a1, 'a1) relDecision -> 'a1 countable -> (__ option -> __ option -> __
  option) -> ('a1, __) gmap -> ('a1, __) gmap -> ('a1, __) gmap

val gmap_to_list :
  ('a1, 'a1) relDecision -> 'a1 countable -> ('a1, 'a2, ('a1, 'a2) gmap)
  finMapToList

type 'k gset = ('k, unit) gmap mapset'

val gset_empty : ('a1, 'a1) relDecision -> 'a1 countable -> 'a1 gset empty

val gset_singleton :
  ('a1, 'a1) relDecision -> 'a1 countable -> ('a1, 'a1 gset) singleton

val gset_union : ('a1, 'a1) relDecision -> 'a1 countable -> 'a1 gset union

val gset_difference :
  ('a1, 'a1) relDecision -> 'a1 countable -> 'a1 gset difference

val gset_elements :
  ('a1, 'a1) relDecision -> 'a1 countable -> ('a1, 'a1 gset) elements

val gset_elem_of_dec :
  ('a1, 'a1) relDecision -> 'a1 countable -> ('a1, 'a1 gset) relDecision

val list_merge : ('a1 -> 'a1 -> decision) -> 'a1 list -> 'a1 list -> 'a1 list

val merge_list_to_stack :
  ('a1 -> 'a1 -> decision) -> 'a1 list option list -> 'a1 list -> 'a1 list
  option list

val merge_stack : ('a1 -> 'a1 -> decision) -> 'a1 list option list -> 'a1 list

val merge_sort_aux :
  ('a1 -> 'a1 -> decision) -> 'a1 list option list -> 'a1 list -> 'a1 list

val merge_sort : ('a1 -> 'a1 -> decision) -> 'a1 list -> 'a1 list

type ('r, 't) setter = ('t -> 't) -> 'r -> 'r

val set : ('a1 -> 'a2) -> ('a1, 'a2) setter -> ('a2 -> 'a2) -> 'a1 -> 'a1

type 'a res =
| Ok of 'a
| Err
| Panic

val rbind : 'a1 res -> ('a1 -> 'a2 res) -> 'a2 res

val ensure : bool -> unit res

val assertp : bool -> unit res

val must : 'a1 res -> 'a1 res

val rfold : ('a2 -> 'a1 -> 'a2 res) -> 'a1 list -> 'a2 -> 'a2 res

val mAXINT : z

val fits : z -> bool

val chk : z -> z res

val int_add : z -> z -> z res

val int_sub : z -> z -> z res

val int_mul : z -> z -> z res

val int_quo : z -> z -> z res

val int_mod : z -> z -> z res

val p18 : z

val hALF18 : z

val gB : z

val mAXDEC : z

val mAXDEC1 : z

val chop_round_pos : z -> z

val chop_round : z -> z

val dec_of_int : z -> z

val dec_mul : z -> z -> z res

val dec_quo_int : z -> z -> z

val dec_ceil : z -> z res

val dec_truncate_int : z -> z res

val dec_round_int : z -> z res

val amount_for_bytes : z -> z -> z res

val proportion : z -> z -> z res

val ceil_to1 : z -> z -> z res

type addr = n list

type denom = n

type time = z

type coin = denom * z

val tzero : time

val hOUR : z

val dAY : z

type status =
| SUnspec
| SActive
| SPending
| SInactive

val status_eq_dec : (status, status) relDecision

type role =
| RAcc
| RNode
| RProv

val role_eq_dec : (role, role) relDecision

type taddr = { ta_role : role; ta_upper : bool; ta_bytes : addr }

val taddr_eq_dec : (taddr, taddr) relDecision

val canon : role -> addr -> taddr

val ta_valid : role -> taddr -> bool

val ta_eqb : taddr -> taddr -> bool

val amount_of : (denom, z) gmap -> denom -> z

val coins_set : (denom, z) gmap -> denom -> z -> (denom, z) gmap

val coins_add : (denom, z) gmap -> denom -> z -> (denom, z) gmap

val coins_sorted : coin list -> bool

val coins_of : coin list -> (denom, z) gmap

type provider = { pv_addr : addr; pv_name : string; pv_identity : string;
                  pv_website : string; pv_description : string;
                  pv_status : status; pv_status_at : time }

type node = { nd_addr : addr; nd_gb_prices : (denom, z) gmap;
              nd_hr_prices : (denom, z) gmap; nd_url : string;
              nd_inactive_at : time; nd_status : status; nd_status_at : 
              time }

type plan = { pl_id : z; pl_prov : addr; pl_duration : z; pl_gb : z;
              pl_prices : (denom, z) gmap; pl_status : status;
              pl_status_at : time }

type sub_kind =
| KNode of addr * z * z * coin
| KPlan of z * denom

type subscription = { sb_id : z; sb_addr : addr; sb_inactive_at : time;
                      sb_status : status; sb_status_at : time;
                      sb_kind : sub_kind }

type allocation = { al_id : z; al_addr : addr; al_granted : z; al_used : z }

type payout = { po_id : z; po_addr : addr; po_node : addr; po_hours : 
                z; po_price : coin; po_next_at : time }

type session = { ss_id : z; ss_sub : z; ss_node : addr; ss_addr : addr;
                 ss_up : z; ss_down : z; ss_duration : z;
                 ss_inactive_at : time; ss_status : status;
                 ss_status_at : time }

type swap = { sw_hash : n list; sw_receiver : taddr; sw_amount : coin }

type inflation = { inf_max : z; inf_min : z; inf_rate : z; inf_ts : time }

type params = { p_prov_deposit : coin; p_prov_share : z;
                p_node_deposit : coin; p_node_active : z;
                p_max_gb : (denom, z) gmap; p_min_gb : (denom, z) gmap;
                p_max_hr : (denom, z) gmap; p_min_hr : (denom, z) gmap;
                p_max_sub_gb : z; p_min_sub_gb : z; p_max_sub_hr : z;
                p_min_sub_hr : z; p_node_share : z; p_sub_delay : z;
                p_sess_delay : z; p_sess_proof : bool; p_swap_enabled : 
                bool; p_swap_denom : denom; p_swap_approver : taddr }

type modflags = { m_max_gb : bool; m_min_gb : bool; m_max_hr : bool;
                  m_min_hr : bool }

type config = { c_deposit : addr; c_feecoll : addr; c_distr : addr;
                c_swap : addr; c_blocked : addr list }

type evv =
| VZ of z
| VT of taddr
| VS of status
| VC of coin list
| VH of n list

type event = string * evv list

val ev : string -> evv list -> event

type state = { cfg : config; bank : (addr, (denom, z) gmap) gmap;
               supply : (denom, z) gmap;
               deposits : (addr, (denom, z) gmap) gmap;
               prov_act : (addr, provider) gmap;
               prov_inact : (addr, provider) gmap;
               node_act : (addr, node) gmap; node_inact : (addr, node) gmap;
               node_q : (time * addr) gset; node_plan : (z * addr) gset;
               plan_count : z; plan_act : (z, plan) gmap;
               plan_inact : (z, plan) gmap; plan_prov : (addr * z) gset;
               sub_count : z; subs : (z, subscription) gmap;
               sub_q : (time * z) gset; sub_acc : (addr * z) gset;
               sub_node : (addr * z) gset; sub_plan : (z * z) gset;
               allocs : (z * addr, allocation) gmap;
               payouts : (z, payout) gmap; pay_q : (time * z) gset;
               pay_acc : (addr * z) gset; pay_node : (addr * z) gset;
               pay_acc_node : ((addr * addr) * z) gset; sess_count : 
               z; sessions : (z, session) gmap; sess_q : (time * z) gset;
               sess_acc : (addr * z) gset; sess_node : (addr * z) gset;
               sess_sub : (z * z) gset; sess_alloc : ((z * addr) * z) gset;
               pars : params; modified : modflags;
               swaps : (n list, swap) gmap;
               inflations : (time, inflation) gmap; mint_max : z;
               mint_min : z; mint_rate : z; mint_inflation : z; now : 
               time; events : event list }

type msg =
| MProvRegister of taddr * string * string * string * string * bool
| MProvUpdate of taddr * string * string * string * string * bool * status
| MNodeRegister of taddr * coin list option * coin list option * string * bool
| MNodeUpdateDetails of taddr * coin list option * coin list option * 
   string * bool
| MNodeUpdateStatus of taddr * status
| MNodeSubscribe of taddr * taddr * z * z * denom
| MPlanCreate of taddr * z * z * coin list option
| MPlanUpdateStatus of taddr * z * status
| MPlanLink of taddr * z * taddr
| MPlanUnlink of taddr * z * taddr
| MPlanSubscribe of taddr * z * denom
| MSubCancel of taddr * z
| MSubAllocate of taddr * z * taddr * z
| MSessStart of taddr * z * taddr
| MSessUpdate of taddr * z * z * z * z * z option * bool
| MSessEnd of taddr * z * z
| MSwap of taddr * n list * taddr * z

type pchange =
| PCProvDeposit of coin
| PCProvShare of z
| PCNodeDeposit of coin
| PCNodeActive of z
| PCMaxGb of coin list
| PCMinGb of coin list
| PCMaxHr of coin list
| PCMinHr of coin list
| PCMaxSubGb of z
| PCMinSubGb of z
| PCMaxSubHr of z
| PCMinSubHr of z
| PCNodeShare of z
| PCSubDelay of z
| PCSessDelay of z
| PCSessProof of bool
| PCSwapEnabled of bool
| PCSwapDenom of denom
| PCSwapApprover of taddr

type op =
| OBegin of time
| OTx of msg
| OGov of pchange list
| OEnd

type outcome =
| OOk of state
| ORejected
| OHalt

val bytes_cmp : n list -> n list -> comparison

val addr_cmp : addr -> addr -> comparison

val lex :
  ('a1 -> 'a1 -> comparison) -> ('a2 -> 'a2 -> comparison) -> ('a1 * 'a2) ->
  ('a1 * 'a2) -> comparison

val cmp_le_dec : ('a1 -> 'a1 -> comparison) -> 'a1 -> 'a1 -> decision

val sort_by : ('a1 -> 'a1 -> comparison) -> 'a1 list -> 'a1 list

val cmp_tz : (time * z) -> (time * z) -> comparison

val cmp_ta : (time * addr) -> (time * addr) -> comparison

val cmp_za : (z * addr) -> (z * addr) -> comparison

val coins_list : (denom, z) gmap -> coin list

val emit : event -> state -> state

val bal : state -> addr -> denom -> z

val set_bal : state -> addr -> denom -> z -> state

val is_blocked : state -> addr -> bool

val bank_send : state -> addr -> addr -> denom -> z -> state res

val bank_send_to_account : state -> addr -> addr -> denom -> z -> state res

val bank_mint : state -> addr -> denom -> z -> state res

val dep_of : state -> addr -> (denom, z) gmap

val dep_add : state -> addr -> denom -> z -> state res

val dep_remaining : state -> addr -> denom -> z -> (denom, z) gmap res

val dep_store : state -> addr -> (denom, z) gmap -> state

val dep_to_account : state -> addr -> addr -> denom -> z -> state res

val dep_to_module : state -> addr -> addr -> denom -> z -> state res

val z_send : state -> addr -> addr -> coin -> state res

val z_dep_add : state -> addr -> coin -> state res

val z_dep_to_account : state -> addr -> addr -> coin -> state res

val z_dep_to_module : state -> addr -> addr -> coin -> state res

val fund_pool : state -> addr -> coin -> state res

val new_coin : denom -> z -> coin res

val coin_sub : coin -> z -> coin res

val get_provider : state -> addr -> provider option

val has_provider : state -> addr -> bool

val set_provider : state -> provider -> state res

val get_node : state -> addr -> node option

val has_node : state -> addr -> bool

val set_node : state -> node -> state res

val get_plan : state -> z -> plan option

val set_plan : state -> plan -> state res

val bounds_ok : (denom, z) gmap -> (denom, z) gmap -> (denom, z) gmap -> bool

val valid_gb_prices : state -> (denom, z) gmap -> bool

val valid_hr_prices : state -> (denom, z) gmap -> bool

val valid_sub_gb : state -> z -> bool

val valid_sub_hr : state -> z -> bool

val due_z : (time * z) gset -> time -> (time * z) list

val due_a : (time * addr) gset -> time -> (time * addr) list

val ids_for_z : (z * z) gset -> z -> z list

val ids_for_aa : ((addr * addr) * z) gset -> addr -> addr -> z list

val ids_for_za : ((z * addr) * z) gset -> z -> addr -> z list

val last_opt : 'a1 list -> 'a1 option

val allocs_for : state -> z -> allocation list

val all_nodes : state -> node list

val slen : string -> z

val is_empty : string -> bool

val coins_field_ok : coin list option -> bool

val coins_field_opt_ok : coin list option -> bool

val denom_ok : denom -> bool

val validate_basic : msg -> bool

val h_prov_register :
  state -> taddr -> string -> string -> string -> string -> state res

val h_prov_update :
  state -> taddr -> string -> string -> string -> string -> status -> state
  res

val h_node_register :
  state -> taddr -> coin list -> coin list -> string -> state res

val h_node_update_details :
  state -> taddr -> coin list option -> coin list option -> string -> state
  res

val h_node_update_status : state -> taddr -> status -> state res

val create_sub_for_node :
  state -> addr -> addr -> z -> z -> denom -> (state * z) res

val h_node_subscribe : state -> taddr -> taddr -> z -> z -> denom -> state res

val h_plan_create : state -> taddr -> z -> z -> coin list -> state res

val plan_authorised : plan -> taddr -> bool

val h_plan_update_status : state -> taddr -> z -> status -> state res

val h_plan_link : state -> taddr -> z -> taddr -> state res

val h_plan_unlink : state -> taddr -> z -> taddr -> state res

val create_sub_for_plan : state -> addr -> z -> denom -> (state * z) res

val h_plan_subscribe : state -> taddr -> z -> denom -> state res

val session_make_pending : state -> session -> state

val sub_pending_hook : state -> z -> state res

val detach_payout : state -> subscription -> state res -> state res

val sub_make_pending : state -> subscription -> state

val h_sub_cancel : state -> taddr -> z -> state res

val h_sub_allocate : state -> taddr -> z -> taddr -> z -> state res

val latest_payout_for : state -> addr -> addr -> payout option res

val latest_session_for_alloc : state -> z -> addr -> session option res

val h_sess_start : state -> taddr -> z -> taddr -> state res

val h_sess_update : state -> taddr -> z -> z -> z -> z -> bool -> state res

val h_sess_end : state -> taddr -> z -> state res

val h_swap : state -> taddr -> n list -> taddr -> z -> state res

val handle : state -> msg -> state res

val run_tx : state -> msg -> state res

val mint_params_valid : z -> z -> z -> bool

val mint_apply : state -> inflation -> state

val mint_loop : inflation list -> state -> state res

val mint_items : state -> inflation list

val mint_begin_block : state -> state res

val payout_step : state -> (time * z) -> state res

val sub_begin_block : state -> state res

val clamp_max : (denom, z) gmap -> (denom, z) gmap -> (denom, z) gmap

val clamp_min : (denom, z) gmap -> (denom, z) gmap -> (denom, z) gmap

val node_sweep_one : state -> node -> state res

val node_expire_one : state -> (time * addr) -> state res

val node_end_block : state -> state res

val session_inactive_hook : state -> z -> addr -> addr -> z -> state res

val session_expire_one : state -> (time * z) -> state res

val session_end_block : state -> state res

val sub_refund : state -> subscription -> state res

val sub_cleanup : state -> subscription -> state

val sub_delete_payout : state -> subscription -> state res

val sub_expire_one : state -> (time * z) -> state res

val sub_end_block : state -> state res

val begin_block : state -> state res

val end_block : state -> state res

val apply_pchange : state -> pchange -> state

val no_flags : modflags

val all_flags : modflags

val clear_events : state -> state

val i64MAX : z

val pos_i64 : z -> bool

val coins_param_ok : coin list -> bool

val coin_param_ok : coin -> bool

val share_ok : z -> bool

val pchange_valid : pchange -> bool

val step : state -> op -> outcome

type run_result =
| RunOk of state
| RunHalt of state * nat

val run_from : state -> op list -> nat -> run_result

val run : state -> op list -> run_result

type genesis = { g_cfg : config; g_balances : (addr * coin) list;
                 g_params : params; g_inflations : inflation list;
                 g_mint : (((z * z) * z) * z); g_time : time }

val empty_state : config -> params -> state

val init : genesis -> state

val bIG : z

val msg_sender : msg -> taddr

val bal_small_b : state -> addr -> bool

val par_ok_b : params -> bool

val wf_op_c03_b : state -> op -> bool

val wf_genesis_b : genesis -> bool

val d_bank : state -> (addr * coin list) list

val d_supply : state -> coin list

val d_deposits : state -> (addr * coin list) list

val d_prov_act : state -> (addr * provider) list

val d_prov_inact : state -> (addr * provider) list

val d_node_act : state -> (addr * node) list

val d_node_inact : state -> (addr * node) list

val d_plan_act : state -> (z * plan) list

val d_plan_inact : state -> (z * plan) list

val d_subs : state -> (z * subscription) list

val d_allocs : state -> ((z * addr) * allocation) list

val d_payouts : state -> (z * payout) list

val d_sessions : state -> (z * session) list

val d_swaps : state -> (n list * swap) list

val d_inflations : state -> (time * inflation) list

val d_node_q : state -> (time * addr) list

val d_node_plan : state -> (z * addr) list

val d_plan_prov : state -> (addr * z) list

val d_sub_q : state -> (time * z) list

val d_sub_acc : state -> (addr * z) list

val d_sub_node : state -> (addr * z) list

val d_sub_plan : state -> (z * z) list

val d_pay_q : state -> (time * z) list

val d_pay_acc : state -> (addr * z) list

val d_pay_node : state -> (addr * z) list

val d_pay_acc_node : state -> ((addr * addr) * z) list

val d_sess_q : state -> (time * z) list

val d_sess_acc : state -> (addr * z) list

val d_sess_node : state -> (addr * z) list

val d_sess_sub : state -> (z * z) list

val d_sess_alloc : state -> ((z * addr) * z) list

val d_coins : (denom, z) gmap -> coin list

type gplan = { gp_plan : plan; gp_nodes : addr list }

type gsub = { gs_sub : subscription; gs_allocs : allocation list }

type gen_doc = { gd_deposits : (addr * (denom, z) gmap) list;
                 gd_providers : provider list; gd_nodes : node list;
                 gd_plans : gplan list; gd_subs : gsub list;
                 gd_sessions : session list; gd_swaps : swap list;
                 gd_inflations : inflation list; gd_params : params }

val by_addr : (addr, 'a1) gmap -> (addr * 'a1) list

val by_z : (z, 'a1) gmap -> (z * 'a1) list

val by_bytes : (n list, 'a1) gmap -> (n list * 'a1) list

val exp_deposits : state -> (addr * (denom, z) gmap) list

val exp_providers : state -> provider list

val exp_nodes : state -> node list

val all_plans : state -> plan list

val links_of : state -> z -> addr list

val link_addrs : state -> addr list -> addr list res

val exp_plan_items : state -> plan list -> gplan list res

val exp_plans : state -> gplan list res

val exp_subs : state -> gsub list

val exp_sessions : state -> session list

val exp_swaps : state -> swap list

val exp_inflations : state -> inflation list

val export : state -> gen_doc res

val addr_ok : addr -> bool

val coins_ok : (denom, z) gmap -> bool

val coins_nonempty_ok : (denom, z) gmap -> bool

val slen0 : string -> z

val status_ai : status -> bool

val nodupb : ('a1, 'a1) relDecision -> 'a1 list -> bool

val share_ok0 : z -> bool

val validate_deposit : (addr * (denom, z) gmap) -> bool

val validate_provider : provider -> bool

val validate_node : node -> bool

val validate_plan : plan -> bool

val validate_session : session -> bool

val validate_swap : swap -> bool

val validate_inflation : inflation -> bool

val validate_allocation : allocation -> bool

val deposit_coin_ok : coin -> bool

val prov_params_ok : params -> bool

val node_params_ok : params -> bool

val sub_params_ok : params -> bool

val sess_params_ok : params -> bool

val swap_params_ok : params -> bool

type verdict = { v_deposit : bool; v_provider : bool; v_node : bool;
                 v_plan : bool; v_subscription : bool; v_session : bool;
                 v_swap : bool; v_mint : bool }

val validate_deposits : (addr * (denom, z) gmap) list -> bool

val validate_providers : params -> provider list -> bool

val validate_nodes : params -> node list -> bool

val validate_plans : gplan list -> bool

val validate_subs : params -> gsub list -> bool

val validate_sessions : params -> session list -> bool

val validate_swaps : params -> swap list -> bool

val validate_inflations : inflation list -> bool

val validate : gen_doc -> verdict

val verdict_ok : verdict -> bool

val imp_deposit : state -> (addr * (denom, z) gmap) -> state res

val imp_node : state -> node -> state res

val imp_plan_link : z -> state -> addr -> state res

val imp_plan : state -> gplan -> state res

val max_id : ('a1 -> z) -> 'a1 list -> z

val imp_provider : state -> provider -> state res

val imp_session : state -> session -> state res

val swap_key_of : n list -> n list

val imp_swap : state -> swap -> state res

val imp_inflation : state -> inflation -> state res

val set_prov_params : params -> state -> state

val set_node_params : params -> state -> state

val set_sub_params : params -> state -> state

val set_sess_params : params -> state -> state

val set_swap_params : params -> state -> state

val import_vpn : gen_doc -> state -> state res

val import_swap : gen_doc -> state -> state res

val import_mint : gen_doc -> state -> state res

val import_hub : gen_doc -> state -> state res

val blank_params : params

val fresh_like : state -> state

val import : state -> gen_doc -> state res

val roundtrip : state -> (verdict * state) res

val genesis_roundtrip : state -> (bool * state) option
