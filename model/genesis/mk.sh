#!/bin/sh
# Builds model/genesis/hub_genesis_run: the extracted model (same definitions as model/Extract.v
# plus Model/Genesis.v's genesis_roundtrip) with model/driver.ml extended by the op `X`
# (export point: print the observation of import(export s); the history continues from s).
# Both inputs are DERIVED from the lead's files at build time (fail-closed if the anchors are gone):
#   ExtractGenesis.v  <- model/Extract.v   (import of Model.Genesis added, genesis_roundtrip added to the list)
#   gdriver.ml        <- model/driver.ml   (one match case added in front of the generic op case)
# usage: mk.sh <verif root>
set -e
V=${1:-/verif}
G=$V/model/genesis
cd "$G"
python3 - "$V" <<'PY'
import re, sys
V = sys.argv[1]
ex = open(V + "/model/Extract.v").read()
n = ex.count("Model.Dump.")
if n != 1 or ex.count('Extraction "hub_model.ml" step') != 1:
    sys.exit("mk.sh: model/Extract.v no longer has the expected shape")
ex = ex.replace("Model.Dump.", "Model.Dump Model.Genesis.")
ex = ex.replace('Extraction "hub_model.ml" step', 'Extraction "hub_model.ml" genesis_roundtrip step')
open("ExtractGenesis.v", "w").write(ex)
dr = open(V + "/model/driver.ml").read()
anchor = "        | k when not !halted ->\n"
if dr.count(anchor) != 1:
    sys.exit("mk.sh: model/driver.ml no longer has the expected op dispatch")
case = '''        | "X" when not !halted ->
            (* export point: validate(export s), import(export s); the history goes on from s *)
            let s = Option.get !st in
            (match H.genesis_roundtrip s with
             | Some (ok, s') -> emit "X" (if ok then "ok" else "rej") (Some s')
             | None -> emit "X" "halt" None)
'''
open("gdriver.ml", "w").write(dr.replace(anchor, case + anchor))
PY
GV=$V/coq/theories/Model/Genesis
if [ ! -f "$GV.vo" ] || [ "$GV.v" -nt "$GV.vo" ]; then
  (cd "$V/coq" && timeout 1200 coqc -Q theories Hub -w -notation-overridden theories/Model/Genesis.v)
fi
timeout 1200 coqc -Q "$V/coq/theories" Hub ExtractGenesis.v
ocamlfind ocamlopt -package zarith -linkpkg -w -a hub_model.mli hub_model.ml gdriver.ml -o hub_genesis_run
