
type __ = Obj.t
let __ = let rec f _ = Obj.repr f in Obj.repr f

(** val xorb : bool -> bool -> bool **)

let xorb b1 b2 =
  if b1 then if b2 then false else true else b2

(** val negb : bool -> bool **)

let negb = function
| true -> false
| false -> true

type nat =
| O
| S of nat

(** val option_map : ('a1 -> 'a2) -> 'a1 option -> 'a2 option **)

let option_map f = function
| Some a -> Some (f a)
| None -> None

type ('a, 'b) sum =
| Inl of 'a
| Inr of 'b

(** val fst : ('a1 * 'a2) -> 'a1 **)

let fst = function
| (x, _) -> x

(** val snd : ('a1 * 'a2) -> 'a2 **)

let snd = function
| (_, y) -> y

(** val length : 'a1 list -> nat **)

let rec length = function
| [] -> O
| _ :: l' -> S (length l')

(** val app : 'a1 list -> 'a1 list -> 'a1 list **)

let rec app l m =
  match l with
  | [] -> m
  | a :: l1 -> a :: (app l1 m)

type comparison =
| Eq
| Lt
| Gt

(** val compOpp : comparison -> comparison **)

let compOpp = function
| Eq -> Eq
| Lt -> Gt
| Gt -> Lt

type compareSpecT =
| CompEqT
| CompLtT
| CompGtT

(** val compareSpec2Type : comparison -> compareSpecT **)

let compareSpec2Type = function
| Eq -> CompEqT
| Lt -> CompLtT
| Gt -> CompGtT

type 'a compSpecT = compareSpecT

(** val compSpec2Type : 'a1 -> 'a1 -> comparison -> 'a1 compSpecT **)

let compSpec2Type _ _ =
  compareSpec2Type

(** val id : __ -> __ **)

let id x =
  x

type 'a sig0 = 'a
  (* singleton inductive, whose constructor was exist *)



type uint =
| Nil
| D0 of uint
| D1 of uint
| D2 of uint
| D3 of uint
| D4 of uint
| D5 of uint
| D6 of uint
| D7 of uint
| D8 of uint
| D9 of uint

type signed_int =
| Pos of uint
| Neg of uint

(** val nzhead : uint -> uint **)

let rec nzhead d = match d with
| D0 d0 -> nzhead d0
| _ -> d

(** val unorm : uint -> uint **)

let unorm d =
  match nzhead d with
  | Nil -> D0 Nil
  | x -> x

(** val norm : signed_int -> signed_int **)

let norm = function
| Pos d0 -> Pos (unorm d0)
| Neg d0 -> (match nzhead d0 with
             | Nil -> Pos (D0 Nil)
             | x -> Neg x)

(** val revapp : uint -> uint -> uint **)

let rec revapp d d' =
  match d with
  | Nil -> d'
  | D0 d0 -> revapp d0 (D0 d')
  | D1 d0 -> revapp d0 (D1 d')
  | D2 d0 -> revapp d0 (D2 d')
  | D3 d0 -> revapp d0 (D3 d')
  | D4 d0 -> revapp d0 (D4 d')
  | D5 d0 -> revapp d0 (D5 d')
  | D6 d0 -> revapp d0 (D6 d')
  | D7 d0 -> revapp d0 (D7 d')
  | D8 d0 -> revapp d0 (D8 d')
  | D9 d0 -> revapp d0 (D9 d')

(** val rev : uint -> uint **)

let rev d =
  revapp d Nil

module Little =
 struct
  (** val succ : uint -> uint **)

  let rec succ = function
  | Nil -> D1 Nil
  | D0 d0 -> D1 d0
  | D1 d0 -> D2 d0
  | D2 d0 -> D3 d0
  | D3 d0 -> D4 d0
  | D4 d0 -> D5 d0
  | D5 d0 -> D6 d0
  | D6 d0 -> D7 d0
  | D7 d0 -> D8 d0
  | D8 d0 -> D9 d0
  | D9 d0 -> D0 (succ d0)
 end

type uint0 =
| Nil0
| D10 of uint0
| D11 of uint0
| D12 of uint0
| D13 of uint0
| D14 of uint0
| D15 of uint0
| D16 of uint0
| D17 of uint0
| D18 of uint0
| D19 of uint0
| Da of uint0
| Db of uint0
| Dc of uint0
| Dd of uint0
| De of uint0
| Df of uint0

type signed_int0 =
| Pos0 of uint0
| Neg0 of uint0

(** val nzhead0 : uint0 -> uint0 **)

let rec nzhead0 d = match d with
| D10 d0 -> nzhead0 d0
| _ -> d

(** val unorm0 : uint0 -> uint0 **)

let unorm0 d =
  match nzhead0 d with
  | Nil0 -> D10 Nil0
  | x -> x

(** val norm0 : signed_int0 -> signed_int0 **)

let norm0 = function
| Pos0 d0 -> Pos0 (unorm0 d0)
| Neg0 d0 -> (match nzhead0 d0 with
              | Nil0 -> Pos0 (D10 Nil0)
              | x -> Neg0 x)

(** val revapp0 : uint0 -> uint0 -> uint0 **)

let rec revapp0 d d' =
  match d with
  | Nil0 -> d'
  | D10 d0 -> revapp0 d0 (D10 d')
  | D11 d0 -> revapp0 d0 (D11 d')
  | D12 d0 -> revapp0 d0 (D12 d')
  | D13 d0 -> revapp0 d0 (D13 d')
  | D14 d0 -> revapp0 d0 (D14 d')
  | D15 d0 -> revapp0 d0 (D15 d')
  | D16 d0 -> revapp0 d0 (D16 d')
  | D17 d0 -> revapp0 d0 (D17 d')
  | D18 d0 -> revapp0 d0 (D18 d')
  | D19 d0 -> revapp0 d0 (D19 d')
  | Da d0 -> revapp0 d0 (Da d')
  | Db d0 -> revapp0 d0 (Db d')
  | Dc d0 -> revapp0 d0 (Dc d')
  | Dd d0 -> revapp0 d0 (Dd d')
  | De d0 -> revapp0 d0 (De d')
  | Df d0 -> revapp0 d0 (Df d')

(** val rev0 : uint0 -> uint0 **)

let rev0 d =
  revapp0 d Nil0

module Coq_Little =
 struct
  (** val succ : uint0 -> uint0 **)

  let rec succ = function
  | Nil0 -> D11 Nil0
  | D10 d0 -> D11 d0
  | D11 d0 -> D12 d0
  | D12 d0 -> D13 d0
  | D13 d0 -> D14 d0
  | D14 d0 -> D15 d0
  | D15 d0 -> D16 d0
  | D16 d0 -> D17 d0
  | D17 d0 -> D18 d0
  | D18 d0 -> D19 d0
  | D19 d0 -> Da d0
  | Da d0 -> Db d0
  | Db d0 -> Dc d0
  | Dc d0 -> Dd d0
  | Dd d0 -> De d0
  | De d0 -> Df d0
  | Df d0 -> D10 (succ d0)
 end

type uint1 =
| UIntDecimal of uint
| UIntHexadecimal of uint0

type signed_int1 =
| IntDecimal of signed_int
| IntHexadecimal of signed_int0

(** val sub : nat -> nat -> nat **)

let rec sub n0 m =
  match n0 with
  | O -> n0
  | S k -> (match m with
            | O -> n0
            | S l -> sub k l)

type positive =
| XI of positive
| XO of positive
| XH

type n =
| N0
| Npos of positive

type z =
| Z0
| Zpos of positive
| Zneg of positive

(** val compose : ('a2 -> 'a3) -> ('a1 -> 'a2) -> 'a1 -> 'a3 **)

let compose g f x =
  g (f x)

(** val flip : ('a1 -> 'a2 -> 'a3) -> 'a2 -> 'a1 -> 'a3 **)

let flip f x y =
  f y x

type reflect =
| ReflectT
| ReflectF

(** val iff_reflect : bool -> reflect **)

let iff_reflect = function
| true -> ReflectT
| false -> ReflectF

module Nat =
 struct
  type t = nat

  (** val zero : nat **)

  let zero =
    O

  (** val one : nat **)

  let one =
    S O

  (** val two : nat **)

  let two =
    S (S O)

  (** val succ : nat -> nat **)

  let succ x =
    S x

  (** val pred : nat -> nat **)

  let pred n0 = match n0 with
  | O -> n0
  | S u -> u

  (** val add : nat -> nat -> nat **)

  let rec add n0 m =
    match n0 with
    | O -> m
    | S p -> S (add p m)

  (** val double : nat -> nat **)

  let double n0 =
    add n0 n0

  (** val mul : nat -> nat -> nat **)

  let rec mul n0 m =
    match n0 with
    | O -> O
    | S p -> add m (mul p m)

  (** val sub : nat -> nat -> nat **)

  let rec sub n0 m =
    match n0 with
    | O -> n0
    | S k -> (match m with
              | O -> n0
              | S l -> sub k l)

  (** val eqb : nat -> nat -> bool **)

  let rec eqb n0 m =
    match n0 with
    | O -> (match m with
            | O -> true
            | S _ -> false)
    | S n' -> (match m with
               | O -> false
               | S m' -> eqb n' m')

  (** val leb : nat -> nat -> bool **)

  let rec leb n0 m =
    match n0 with
    | O -> true
    | S n' -> (match m with
               | O -> false
               | S m' -> leb n' m')

  (** val ltb : nat -> nat -> bool **)

  let ltb n0 m =
    leb (S n0) m

  (** val compare : nat -> nat -> comparison **)

  let rec compare n0 m =
    match n0 with
    | O -> (match m with
            | O -> Eq
            | S _ -> Lt)
    | S n' -> (match m with
               | O -> Gt
               | S m' -> compare n' m')

  (** val max : nat -> nat -> nat **)

  let rec max n0 m =
    match n0 with
    | O -> m
    | S n' -> (match m with
               | O -> n0
               | S m' -> S (max n' m'))

  (** val min : nat -> nat -> nat **)

  let rec min n0 m =
    match n0 with
    | O -> O
    | S n' -> (match m with
               | O -> O
               | S m' -> S (min n' m'))

  (** val even : nat -> bool **)

  let rec even = function
  | O -> true
  | S n1 -> (match n1 with
             | O -> false
             | S n' -> even n')

  (** val odd : nat -> bool **)

  let odd n0 =
    negb (even n0)

  (** val pow : nat -> nat -> nat **)

  let rec pow n0 = function
  | O -> S O
  | S m0 -> mul n0 (pow n0 m0)

  (** val tail_add : nat -> nat -> nat **)

  let rec tail_add n0 m =
    match n0 with
    | O -> m
    | S n1 -> tail_add n1 (S m)

  (** val tail_addmul : nat -> nat -> nat -> nat **)

  let rec tail_addmul r n0 m =
    match n0 with
    | O -> r
    | S n1 -> tail_addmul (tail_add m r) n1 m

  (** val tail_mul : nat -> nat -> nat **)

  let tail_mul n0 m =
    tail_addmul O n0 m

  (** val of_uint_acc : uint -> nat -> nat **)

  let rec of_uint_acc d acc =
    match d with
    | Nil -> acc
    | D0 d0 ->
      of_uint_acc d0 (tail_mul (S (S (S (S (S (S (S (S (S (S O)))))))))) acc)
    | D1 d0 ->
      of_uint_acc d0 (S
        (tail_mul (S (S (S (S (S (S (S (S (S (S O)))))))))) acc))
    | D2 d0 ->
      of_uint_acc d0 (S (S
        (tail_mul (S (S (S (S (S (S (S (S (S (S O)))))))))) acc)))
    | D3 d0 ->
      of_uint_acc d0 (S (S (S
        (tail_mul (S (S (S (S (S (S (S (S (S (S O)))))))))) acc))))
    | D4 d0 ->
      of_uint_acc d0 (S (S (S (S
        (tail_mul (S (S (S (S (S (S (S (S (S (S O)))))))))) acc)))))
    | D5 d0 ->
      of_uint_acc d0 (S (S (S (S (S
        (tail_mul (S (S (S (S (S (S (S (S (S (S O)))))))))) acc))))))
    | D6 d0 ->
      of_uint_acc d0 (S (S (S (S (S (S
        (tail_mul (S (S (S (S (S (S (S (S (S (S O)))))))))) acc)))))))
    | D7 d0 ->
      of_uint_acc d0 (S (S (S (S (S (S (S
        (tail_mul (S (S (S (S (S (S (S (S (S (S O)))))))))) acc))))))))
    | D8 d0 ->
      of_uint_acc d0 (S (S (S (S (S (S (S (S
        (tail_mul (S (S (S (S (S (S (S (S (S (S O)))))))))) acc)))))))))
    | D9 d0 ->
      of_uint_acc d0 (S (S (S (S (S (S (S (S (S
        (tail_mul (S (S (S (S (S (S (S (S (S (S O)))))))))) acc))))))))))

  (** val of_uint : uint -> nat **)

  let of_uint d =
    of_uint_acc d O

  (** val of_hex_uint_acc : uint0 -> nat -> nat **)

  let rec of_hex_uint_acc d acc =
    match d with
    | Nil0 -> acc
    | D10 d0 ->
      of_hex_uint_acc d0
        (tail_mul (S (S (S (S (S (S (S (S (S (S (S (S (S (S (S (S
          O)))))))))))))))) acc)
    | D11 d0 ->
      of_hex_uint_acc d0 (S
        (tail_mul (S (S (S (S (S (S (S (S (S (S (S (S (S (S (S (S
          O)))))))))))))))) acc))
    | D12 d0 ->
      of_hex_uint_acc d0 (S (S
        (tail_mul (S (S (S (S (S (S (S (S (S (S (S (S (S (S (S (S
          O)))))))))))))))) acc)))
    | D13 d0 ->
      of_hex_uint_acc d0 (S (S (S
        (tail_mul (S (S (S (S (S (S (S (S (S (S (S (S (S (S (S (S
          O)))))))))))))))) acc))))
    | D14 d0 ->
      of_hex_uint_acc d0 (S (S (S (S
        (tail_mul (S (S (S (S (S (S (S (S (S (S (S (S (S (S (S (S
          O)))))))))))))))) acc)))))
    | D15 d0 ->
      of_hex_uint_acc d0 (S (S (S (S (S
        (tail_mul (S (S (S (S (S (S (S (S (S (S (S (S (S (S (S (S
          O)))))))))))))))) acc))))))
    | D16 d0 ->
      of_hex_uint_acc d0 (S (S (S (S (S (S
        (tail_mul (S (S (S (S (S (S (S (S (S (S (S (S (S (S (S (S
          O)))))))))))))))) acc)))))))
    | D17 d0 ->
      of_hex_uint_acc d0 (S (S (S (S (S (S (S
        (tail_mul (S (S (S (S (S (S (S (S (S (S (S (S (S (S (S (S
          O)))))))))))))))) acc))))))))
    | D18 d0 ->
      of_hex_uint_acc d0 (S (S (S (S (S (S (S (S
        (tail_mul (S (S (S (S (S (S (S (S (S (S (S (S (S (S (S (S
          O)))))))))))))))) acc)))))))))
    | D19 d0 ->
      of_hex_uint_acc d0 (S (S (S (S (S (S (S (S (S
        (tail_mul (S (S (S (S (S (S (S (S (S (S (S (S (S (S (S (S
          O)))))))))))))))) acc))))))))))
    | Da d0 ->
      of_hex_uint_acc d0 (S (S (S (S (S (S (S (S (S (S
        (tail_mul (S (S (S (S (S (S (S (S (S (S (S (S (S (S (S (S
          O)))))))))))))))) acc)))))))))))
    | Db d0 ->
      of_hex_uint_acc d0 (S (S (S (S (S (S (S (S (S (S (S
        (tail_mul (S (S (S (S (S (S (S (S (S (S (S (S (S (S (S (S
          O)))))))))))))))) acc))))))))))))
    | Dc d0 ->
      of_hex_uint_acc d0 (S (S (S (S (S (S (S (S (S (S (S (S
        (tail_mul (S (S (S (S (S (S (S (S (S (S (S (S (S (S (S (S
          O)))))))))))))))) acc)))))))))))))
    | Dd d0 ->
      of_hex_uint_acc d0 (S (S (S (S (S (S (S (S (S (S (S (S (S
        (tail_mul (S (S (S (S (S (S (S (S (S (S (S (S (S (S (S (S
          O)))))))))))))))) acc))))))))))))))
    | De d0 ->
      of_hex_uint_acc d0 (S (S (S (S (S (S (S (S (S (S (S (S (S (S
        (tail_mul (S (S (S (S (S (S (S (S (S (S (S (S (S (S (S (S
          O)))))))))))))))) acc)))))))))))))))
    | Df d0 ->
      of_hex_uint_acc d0 (S (S (S (S (S (S (S (S (S (S (S (S (S (S (S
        (tail_mul (S (S (S (S (S (S (S (S (S (S (S (S (S (S (S (S
          O)))))))))))))))) acc))))))))))))))))

  (** val of_hex_uint : uint0 -> nat **)

  let of_hex_uint d =
    of_hex_uint_acc d O

  (** val of_num_uint : uint1 -> nat **)

  let of_num_uint = function
  | UIntDecimal d0 -> of_uint d0
  | UIntHexadecimal d0 -> of_hex_uint d0

  (** val to_little_uint : nat -> uint -> uint **)

  let rec to_little_uint n0 acc =
    match n0 with
    | O -> acc
    | S n1 -> to_little_uint n1 (Little.succ acc)

  (** val to_uint : nat -> uint **)

  let to_uint n0 =
    rev (to_little_uint n0 (D0 Nil))

  (** val to_little_hex_uint : nat -> uint0 -> uint0 **)

  let rec to_little_hex_uint n0 acc =
    match n0 with
    | O -> acc
    | S n1 -> to_little_hex_uint n1 (Coq_Little.succ acc)

  (** val to_hex_uint : nat -> uint0 **)

  let to_hex_uint n0 =
    rev0 (to_little_hex_uint n0 (D10 Nil0))

  (** val to_num_uint : nat -> uint1 **)

  let to_num_uint n0 =
    UIntDecimal (to_uint n0)

  (** val to_num_hex_uint : nat -> uint1 **)

  let to_num_hex_uint n0 =
    UIntHexadecimal (to_hex_uint n0)

  (** val of_int : signed_int -> nat option **)

  let of_int d =
    match norm d with
    | Pos u -> Some (of_uint u)
    | Neg _ -> None

  (** val of_hex_int : signed_int0 -> nat option **)

  let of_hex_int d =
    match norm0 d with
    | Pos0 u -> Some (of_hex_uint u)
    | Neg0 _ -> None

  (** val of_num_int : signed_int1 -> nat option **)

  let of_num_int = function
  | IntDecimal d0 -> of_int d0
  | IntHexadecimal d0 -> of_hex_int d0

  (** val to_int : nat -> signed_int **)

  let to_int n0 =
    Pos (to_uint n0)

  (** val to_hex_int : nat -> signed_int0 **)

  let to_hex_int n0 =
    Pos0 (to_hex_uint n0)

  (** val to_num_int : nat -> signed_int1 **)

  let to_num_int n0 =
    IntDecimal (to_int n0)

  (** val divmod : nat -> nat -> nat -> nat -> nat * nat **)

  let rec divmod x y q u =
    match x with
    | O -> (q, u)
    | S x' ->
      (match u with
       | O -> divmod x' y (S q) y
       | S u' -> divmod x' y q u')

  (** val div : nat -> nat -> nat **)

  let div x y = match y with
  | O -> y
  | S y' -> fst (divmod x y' O y')

  (** val modulo : nat -> nat -> nat **)

  let modulo x = function
  | O -> x
  | S y' -> sub y' (snd (divmod x y' O y'))

  (** val gcd : nat -> nat -> nat **)

  let rec gcd a b =
    match a with
    | O -> b
    | S a' -> gcd (modulo b (S a')) (S a')

  (** val square : nat -> nat **)

  let square n0 =
    mul n0 n0

  (** val sqrt_iter : nat -> nat -> nat -> nat -> nat **)

  let rec sqrt_iter k p q r =
    match k with
    | O -> p
    | S k' ->
      (match r with
       | O -> sqrt_iter k' (S p) (S (S q)) (S (S q))
       | S r' -> sqrt_iter k' p q r')

  (** val sqrt : nat -> nat **)

  let sqrt n0 =
    sqrt_iter n0 O O O

  (** val log2_iter : nat -> nat -> nat -> nat -> nat **)

  let rec log2_iter k p q r =
    match k with
    | O -> p
    | S k' ->
      (match r with
       | O -> log2_iter k' (S p) (S q) q
       | S r' -> log2_iter k' p (S q) r')

  (** val log2 : nat -> nat **)

  let log2 n0 =
    log2_iter (pred n0) O (S O) O

  (** val iter : nat -> ('a1 -> 'a1) -> 'a1 -> 'a1 **)

  let rec iter n0 f x =
    match n0 with
    | O -> x
    | S n1 -> f (iter n1 f x)

  (** val div2 : nat -> nat **)

  let rec div2 = function
  | O -> O
  | S n1 -> (match n1 with
             | O -> O
             | S n' -> S (div2 n'))

  (** val testbit : nat -> nat -> bool **)

  let rec testbit a = function
  | O -> odd a
  | S n1 -> testbit (div2 a) n1

  (** val shiftl : nat -> nat -> nat **)

  let rec shiftl a = function
  | O -> a
  | S n1 -> double (shiftl a n1)

  (** val shiftr : nat -> nat -> nat **)

  let rec shiftr a = function
  | O -> a
  | S n1 -> div2 (shiftr a n1)

  (** val bitwise : (bool -> bool -> bool) -> nat -> nat -> nat -> nat **)

  let rec bitwise op0 n0 a b =
    match n0 with
    | O -> O
    | S n' ->
      add (if op0 (odd a) (odd b) then S O else O)
        (mul (S (S O)) (bitwise op0 n' (div2 a) (div2 b)))

  (** val coq_land : nat -> nat -> nat **)

  let coq_land a b =
    bitwise (&&) a a b

  (** val coq_lor : nat -> nat -> nat **)

  let coq_lor a b =
    bitwise (||) (max a b) a b

  (** val ldiff : nat -> nat -> nat **)

  let ldiff a b =
    bitwise (fun b0 b' -> (&&) b0 (negb b')) a a b

  (** val coq_lxor : nat -> nat -> nat **)

  let coq_lxor a b =
    bitwise xorb (max a b) a b

  (** val recursion : 'a1 -> (nat -> 'a1 -> 'a1) -> nat -> 'a1 **)

  let rec recursion x f0 = function
  | O -> x
  | S n1 -> f0 n1 (recursion x f0 n1)

  (** val eq_dec : nat -> nat -> bool **)

  let rec eq_dec n0 m =
    match n0 with
    | O -> (match m with
            | O -> true
            | S _ -> false)
    | S n1 -> (match m with
               | O -> false
               | S n2 -> eq_dec n1 n2)

  (** val leb_spec0 : nat -> nat -> reflect **)

  let leb_spec0 x y =
    iff_reflect (leb x y)

  (** val ltb_spec0 : nat -> nat -> reflect **)

  let ltb_spec0 x y =
    iff_reflect (ltb x y)

  module Private_OrderTac =
   struct
    module IsTotal =
     struct
     end

    module Tac =
     struct
     end
   end

  module Private_Tac =
   struct
   end

  module Private_Dec =
   struct
    (** val max_case_strong :
        nat -> nat -> (nat -> nat -> __ -> 'a1 -> 'a1) -> (__ -> 'a1) -> (__
        -> 'a1) -> 'a1 **)

    let max_case_strong n0 m compat hl hr =
      let c = compSpec2Type n0 m (compare n0 m) in
      (match c with
       | CompGtT -> compat n0 (max n0 m) __ (hl __)
       | _ -> compat m (max n0 m) __ (hr __))

    (** val max_case :
        nat -> nat -> (nat -> nat -> __ -> 'a1 -> 'a1) -> 'a1 -> 'a1 -> 'a1 **)

    let max_case n0 m x x0 x1 =
      max_case_strong n0 m x (fun _ -> x0) (fun _ -> x1)

    (** val max_dec : nat -> nat -> bool **)

    let max_dec n0 m =
      max_case n0 m (fun _ _ _ h0 -> h0) true false

    (** val min_case_strong :
        nat -> nat -> (nat -> nat -> __ -> 'a1 -> 'a1) -> (__ -> 'a1) -> (__
        -> 'a1) -> 'a1 **)

    let min_case_strong n0 m compat hl hr =
      let c = compSpec2Type n0 m (compare n0 m) in
      (match c with
       | CompGtT -> compat m (min n0 m) __ (hr __)
       | _ -> compat n0 (min n0 m) __ (hl __))

    (** val min_case :
        nat -> nat -> (nat -> nat -> __ -> 'a1 -> 'a1) -> 'a1 -> 'a1 -> 'a1 **)

    let min_case n0 m x x0 x1 =
      min_case_strong n0 m x (fun _ -> x0) (fun _ -> x1)

    (** val min_dec : nat -> nat -> bool **)

    let min_dec n0 m =
      min_case n0 m (fun _ _ _ h0 -> h0) true false
   end

  (** val max_case_strong :
      nat -> nat -> (__ -> 'a1) -> (__ -> 'a1) -> 'a1 **)

  let max_case_strong n0 m x x0 =
    Private_Dec.max_case_strong n0 m (fun _ _ _ x1 -> x1) x x0

  (** val max_case : nat -> nat -> 'a1 -> 'a1 -> 'a1 **)

  let max_case n0 m x x0 =
    max_case_strong n0 m (fun _ -> x) (fun _ -> x0)

  (** val max_dec : nat -> nat -> bool **)

  let max_dec =
    Private_Dec.max_dec

  (** val min_case_strong :
      nat -> nat -> (__ -> 'a1) -> (__ -> 'a1) -> 'a1 **)

  let min_case_strong n0 m x x0 =
    Private_Dec.min_case_strong n0 m (fun _ _ _ x1 -> x1) x x0

  (** val min_case : nat -> nat -> 'a1 -> 'a1 -> 'a1 **)

  let min_case n0 m x x0 =
    min_case_strong n0 m (fun _ -> x) (fun _ -> x0)

  (** val min_dec : nat -> nat -> bool **)

  let min_dec =
    Private_Dec.min_dec

  module Private_Parity =
   struct
   end

  module Private_NZPow =
   struct
   end

  module Private_NZSqrt =
   struct
   end

  (** val sqrt_up : nat -> nat **)

  let sqrt_up a =
    match compare O a with
    | Lt -> S (sqrt (pred a))
    | _ -> O

  (** val log2_up : nat -> nat **)

  let log2_up a =
    match compare (S O) a with
    | Lt -> S (log2 (pred a))
    | _ -> O

  module Private_NZDiv =
   struct
   end

  (** val lcm : nat -> nat -> nat **)

  let lcm a b =
    mul a (div b (gcd a b))

  (** val eqb_spec : nat -> nat -> reflect **)

  let eqb_spec x y =
    iff_reflect (eqb x y)

  (** val b2n : bool -> nat **)

  let b2n = function
  | true -> S O
  | false -> O

  (** val setbit : nat -> nat -> nat **)

  let setbit a n0 =
    coq_lor a (shiftl (S O) n0)

  (** val clearbit : nat -> nat -> nat **)

  let clearbit a n0 =
    ldiff a (shiftl (S O) n0)

  (** val ones : nat -> nat **)

  let ones n0 =
    pred (shiftl (S O) n0)

  (** val lnot : nat -> nat -> nat **)

  let lnot a n0 =
    coq_lxor a (ones n0)

  (** val coq_Even_Odd_dec : nat -> bool **)

  let rec coq_Even_Odd_dec = function
  | O -> true
  | S n1 -> if coq_Even_Odd_dec n1 then false else true

  type coq_EvenT = nat

  type coq_OddT = nat

  (** val coq_EvenT_0 : coq_EvenT **)

  let coq_EvenT_0 =
    O

  (** val coq_EvenT_2 : nat -> coq_EvenT -> coq_EvenT **)

  let coq_EvenT_2 _ h0 =
    S h0

  (** val coq_OddT_1 : coq_OddT **)

  let coq_OddT_1 =
    O

  (** val coq_OddT_2 : nat -> coq_OddT -> coq_OddT **)

  let coq_OddT_2 _ h0 =
    S h0

  (** val coq_EvenT_S_OddT : nat -> coq_EvenT -> coq_OddT **)

  let coq_EvenT_S_OddT _ = function
  | O -> assert false (* absurd case *)
  | S n0 -> n0

  (** val coq_OddT_S_EvenT : nat -> coq_OddT -> coq_EvenT **)

  let coq_OddT_S_EvenT _ h =
    h

  (** val even_EvenT : nat -> coq_EvenT **)

  let rec even_EvenT = function
  | O -> coq_EvenT_0
  | S n1 ->
    (match n1 with
     | O -> assert false (* absurd case *)
     | S n2 -> let he = even_EvenT n2 in coq_EvenT_2 n2 he)

  (** val odd_OddT : nat -> coq_OddT **)

  let rec odd_OddT = function
  | O -> assert false (* absurd case *)
  | S n1 ->
    (match n1 with
     | O -> coq_OddT_1
     | S n2 -> let he = odd_OddT n2 in coq_OddT_2 n2 he)

  (** val coq_Even_EvenT : nat -> coq_EvenT **)

  let coq_Even_EvenT =
    even_EvenT

  (** val coq_Odd_OddT : nat -> coq_OddT **)

  let coq_Odd_OddT =
    odd_OddT

  (** val coq_EvenT_OddT_dec : nat -> (coq_EvenT, coq_OddT) sum **)

  let coq_EvenT_OddT_dec n0 =
    if even n0 then Inl (even_EvenT n0) else Inr (odd_OddT n0)

  (** val coq_OddT_EvenT_rect :
      (nat -> coq_EvenT -> 'a2 -> 'a1) -> 'a2 -> (nat -> coq_OddT -> 'a1 ->
      'a2) -> nat -> coq_OddT -> 'a1 **)

  let rec coq_OddT_EvenT_rect hQP hQ0 hPQ n0 h =
    match n0 with
    | O -> assert false (* absurd case *)
    | S n1 ->
      (match n1 with
       | O -> hQP O coq_EvenT_0 hQ0
       | S n2 ->
         let hES = coq_OddT_S_EvenT (S n2) h in
         let hO = coq_EvenT_S_OddT n2 hES in
         hQP (S n2) hES (hPQ n2 hO (coq_OddT_EvenT_rect hQP hQ0 hPQ n2 hO)))

  (** val coq_EvenT_OddT_rect :
      (nat -> coq_EvenT -> 'a2 -> 'a1) -> 'a2 -> (nat -> coq_OddT -> 'a1 ->
      'a2) -> nat -> coq_EvenT -> 'a2 **)

  let coq_EvenT_OddT_rect hQP hQ0 hPQ n0 hES =
    match n0 with
    | O -> hQ0
    | S n1 ->
      let hO = coq_EvenT_S_OddT n1 hES in
      hPQ n1 hO (coq_OddT_EvenT_rect hQP hQ0 hPQ n1 hO)
 end

module Pos =
 struct
  type mask =
  | IsNul
  | IsPos of positive
  | IsNeg
 end

module Coq_Pos =
 struct
  (** val succ : positive -> positive **)

  let rec succ = function
  | XI p -> XO (succ p)
  | XO p -> XI p
  | XH -> XO XH

  (** val add : positive -> positive -> positive **)

  let rec add x y =
    match x with
    | XI p ->
      (match y with
       | XI q -> XO (add_carry p q)
       | XO q -> XI (add p q)
       | XH -> XO (succ p))
    | XO p ->
      (match y with
       | XI q -> XI (add p q)
       | XO q -> XO (add p q)
       | XH -> XI p)
    | XH -> (match y with
             | XI q -> XO (succ q)
             | XO q -> XI q
             | XH -> XO XH)

  (** val add_carry : positive -> positive -> positive **)

  and add_carry x y =
    match x with
    | XI p ->
      (match y with
       | XI q -> XI (add_carry p q)
       | XO q -> XO (add_carry p q)
       | XH -> XI (succ p))
    | XO p ->
      (match y with
       | XI q -> XO (add_carry p q)
       | XO q -> XI (add p q)
       | XH -> XO (succ p))
    | XH ->
      (match y with
       | XI q -> XI (succ q)
       | XO q -> XO (succ q)
       | XH -> XI XH)

  (** val pred_double : positive -> positive **)

  let rec pred_double = function
  | XI p -> XI (XO p)
  | XO p -> XI (pred_double p)
  | XH -> XH

  (** val pred : positive -> positive **)

  let pred = function
  | XI p -> XO p
  | XO p -> pred_double p
  | XH -> XH

  type mask = Pos.mask =
  | IsNul
  | IsPos of positive
  | IsNeg

  (** val succ_double_mask : mask -> mask **)

  let succ_double_mask = function
  | IsNul -> IsPos XH
  | IsPos p -> IsPos (XI p)
  | IsNeg -> IsNeg

  (** val double_mask : mask -> mask **)

  let double_mask = function
  | IsPos p -> IsPos (XO p)
  | x0 -> x0

  (** val double_pred_mask : positive -> mask **)

  let double_pred_mask = function
  | XI p -> IsPos (XO (XO p))
  | XO p -> IsPos (XO (pred_double p))
  | XH -> IsNul

  (** val sub_mask : positive -> positive -> mask **)

  let rec sub_mask x y =
    match x with
    | XI p ->
      (match y with
       | XI q -> double_mask (sub_mask p q)
       | XO q -> succ_double_mask (sub_mask p q)
       | XH -> IsPos (XO p))
    | XO p ->
      (match y with
       | XI q -> succ_double_mask (sub_mask_carry p q)
       | XO q -> double_mask (sub_mask p q)
       | XH -> IsPos (pred_double p))
    | XH -> (match y with
             | XH -> IsNul
             | _ -> IsNeg)

  (** val sub_mask_carry : positive -> positive -> mask **)

  and sub_mask_carry x y =
    match x with
    | XI p ->
      (match y with
       | XI q -> succ_double_mask (sub_mask_carry p q)
       | XO q -> double_mask (sub_mask p q)
       | XH -> IsPos (pred_double p))
    | XO p ->
      (match y with
       | XI q -> double_mask (sub_mask_carry p q)
       | XO q -> succ_double_mask (sub_mask_carry p q)
       | XH -> double_pred_mask p)
    | XH -> IsNeg

  (** val mul : positive -> positive -> positive **)

  let rec mul x y =
    match x with
    | XI p -> add y (XO (mul p y))
    | XO p -> XO (mul p y)
    | XH -> y

  (** val iter : ('a1 -> 'a1) -> 'a1 -> positive -> 'a1 **)

  let rec iter f x = function
  | XI n' -> f (iter f (iter f x n') n')
  | XO n' -> iter f (iter f x n') n'
  | XH -> f x

  (** val compare_cont : comparison -> positive -> positive -> comparison **)

  let rec compare_cont r x y =
    match x with
    | XI p ->
      (match y with
       | XI q -> compare_cont r p q
       | XO q -> compare_cont Gt p q
       | XH -> Gt)
    | XO p ->
      (match y with
       | XI q -> compare_cont Lt p q
       | XO q -> compare_cont r p q
       | XH -> Gt)
    | XH -> (match y with
             | XH -> r
             | _ -> Lt)

  (** val compare : positive -> positive -> comparison **)

  let compare =
    compare_cont Eq

  (** val eqb : positive -> positive -> bool **)

  let rec eqb p q =
    match p with
    | XI p0 -> (match q with
                | XI q0 -> eqb p0 q0
                | _ -> false)
    | XO p0 -> (match q with
                | XO q0 -> eqb p0 q0
                | _ -> false)
    | XH -> (match q with
             | XH -> true
             | _ -> false)

  (** val of_succ_nat : nat -> positive **)

  let rec of_succ_nat = function
  | O -> XH
  | S x -> succ (of_succ_nat x)

  (** val eq_dec : positive -> positive -> bool **)

  let rec eq_dec p x0 =
    match p with
    | XI p0 -> (match x0 with
                | XI p1 -> eq_dec p0 p1
                | _ -> false)
    | XO p0 -> (match x0 with
                | XO p1 -> eq_dec p0 p1
                | _ -> false)
    | XH -> (match x0 with
             | XH -> true
             | _ -> false)
 end

module N =
 struct
  (** val succ_double : n -> n **)

  let succ_double = function
  | N0 -> Npos XH
  | Npos p -> Npos (XI p)

  (** val double : n -> n **)

  let double = function
  | N0 -> N0
  | Npos p -> Npos (XO p)

  (** val sub : n -> n -> n **)

  let sub n0 m =
    match n0 with
    | N0 -> N0
    | Npos n' ->
      (match m with
       | N0 -> n0
       | Npos m' ->
         (match Coq_Pos.sub_mask n' m' with
          | Coq_Pos.IsPos p -> Npos p
          | _ -> N0))

  (** val compare : n -> n -> comparison **)

  let compare n0 m =
    match n0 with
    | N0 -> (match m with
             | N0 -> Eq
             | Npos _ -> Lt)
    | Npos n' -> (match m with
                  | N0 -> Gt
                  | Npos m' -> Coq_Pos.compare n' m')

  (** val eqb : n -> n -> bool **)

  let eqb n0 m =
    match n0 with
    | N0 -> (match m with
             | N0 -> true
             | Npos _ -> false)
    | Npos p -> (match m with
                 | N0 -> false
                 | Npos q -> Coq_Pos.eqb p q)

  (** val leb : n -> n -> bool **)

  let leb x y =
    match compare x y with
    | Gt -> false
    | _ -> true

  (** val ltb : n -> n -> bool **)

  let ltb x y =
    match compare x y with
    | Lt -> true
    | _ -> false

  (** val pos_div_eucl : positive -> n -> n * n **)

  let rec pos_div_eucl a b =
    match a with
    | XI a' ->
      let (q, r) = pos_div_eucl a' b in
      let r' = succ_double r in
      if leb b r' then ((succ_double q), (sub r' b)) else ((double q), r')
    | XO a' ->
      let (q, r) = pos_div_eucl a' b in
      let r' = double r in
      if leb b r' then ((succ_double q), (sub r' b)) else ((double q), r')
    | XH ->
      (match b with
       | N0 -> (N0, (Npos XH))
       | Npos p -> (match p with
                    | XH -> ((Npos XH), N0)
                    | _ -> (N0, (Npos XH))))

  (** val eq_dec : n -> n -> bool **)

  let eq_dec n0 m =
    match n0 with
    | N0 -> (match m with
             | N0 -> true
             | Npos _ -> false)
    | Npos p -> (match m with
                 | N0 -> false
                 | Npos p0 -> Coq_Pos.eq_dec p p0)
 end

module Z =
 struct
  (** val double : z -> z **)

  let double = function
  | Z0 -> Z0
  | Zpos p -> Zpos (XO p)
  | Zneg p -> Zneg (XO p)

  (** val succ_double : z -> z **)

  let succ_double = function
  | Z0 -> Zpos XH
  | Zpos p -> Zpos (XI p)
  | Zneg p -> Zneg (Coq_Pos.pred_double p)

  (** val pred_double : z -> z **)

  let pred_double = function
  | Z0 -> Zneg XH
  | Zpos p -> Zpos (Coq_Pos.pred_double p)
  | Zneg p -> Zneg (XI p)

  (** val pos_sub : positive -> positive -> z **)

  let rec pos_sub x y =
    match x with
    | XI p ->
      (match y with
       | XI q -> double (pos_sub p q)
       | XO q -> succ_double (pos_sub p q)
       | XH -> Zpos (XO p))
    | XO p ->
      (match y with
       | XI q -> pred_double (pos_sub p q)
       | XO q -> double (pos_sub p q)
       | XH -> Zpos (Coq_Pos.pred_double p))
    | XH ->
      (match y with
       | XI q -> Zneg (XO q)
       | XO q -> Zneg (Coq_Pos.pred_double q)
       | XH -> Z0)

  (** val add : z -> z -> z **)

  let add x y =
    match x with
    | Z0 -> y
    | Zpos x' ->
      (match y with
       | Z0 -> x
       | Zpos y' -> Zpos (Coq_Pos.add x' y')
       | Zneg y' -> pos_sub x' y')
    | Zneg x' ->
      (match y with
       | Z0 -> x
       | Zpos y' -> pos_sub y' x'
       | Zneg y' -> Zneg (Coq_Pos.add x' y'))

  (** val opp : z -> z **)

  let opp = function
  | Z0 -> Z0
  | Zpos x0 -> Zneg x0
  | Zneg x0 -> Zpos x0

  (** val sub : z -> z -> z **)

  let sub m n0 =
    add m (opp n0)

  (** val mul : z -> z -> z **)

  let mul x y =
    match x with
    | Z0 -> Z0
    | Zpos x' ->
      (match y with
       | Z0 -> Z0
       | Zpos y' -> Zpos (Coq_Pos.mul x' y')
       | Zneg y' -> Zneg (Coq_Pos.mul x' y'))
    | Zneg x' ->
      (match y with
       | Z0 -> Z0
       | Zpos y' -> Zneg (Coq_Pos.mul x' y')
       | Zneg y' -> Zpos (Coq_Pos.mul x' y'))

  (** val pow_pos : z -> positive -> z **)

  let pow_pos z0 =
    Coq_Pos.iter (mul z0) (Zpos XH)

  (** val pow : z -> z -> z **)

  let pow x = function
  | Z0 -> Zpos XH
  | Zpos p -> pow_pos x p
  | Zneg _ -> Z0

  (** val compare : z -> z -> comparison **)

  let compare x y =
    match x with
    | Z0 -> (match y with
             | Z0 -> Eq
             | Zpos _ -> Lt
             | Zneg _ -> Gt)
    | Zpos x' -> (match y with
                  | Zpos y' -> Coq_Pos.compare x' y'
                  | _ -> Gt)
    | Zneg x' ->
      (match y with
       | Zneg y' -> compOpp (Coq_Pos.compare x' y')
       | _ -> Lt)

  (** val leb : z -> z -> bool **)

  let leb x y =
    match compare x y with
    | Gt -> false
    | _ -> true

  (** val ltb : z -> z -> bool **)

  let ltb x y =
    match compare x y with
    | Lt -> true
    | _ -> false

  (** val eqb : z -> z -> bool **)

  let eqb x y =
    match x with
    | Z0 -> (match y with
             | Z0 -> true
             | _ -> false)
    | Zpos p -> (match y with
                 | Zpos q -> Coq_Pos.eqb p q
                 | _ -> false)
    | Zneg p -> (match y with
                 | Zneg q -> Coq_Pos.eqb p q
                 | _ -> false)

  (** val abs : z -> z **)

  let abs = function
  | Zneg p -> Zpos p
  | x -> x

  (** val of_nat : nat -> z **)

  let of_nat = function
  | O -> Z0
  | S n1 -> Zpos (Coq_Pos.of_succ_nat n1)

  (** val of_N : n -> z **)

  let of_N = function
  | N0 -> Z0
  | Npos p -> Zpos p

  (** val pos_div_eucl : positive -> z -> z * z **)

  let rec pos_div_eucl a b =
    match a with
    | XI a' ->
      let (q, r) = pos_div_eucl a' b in
      let r' = add (mul (Zpos (XO XH)) r) (Zpos XH) in
      if ltb r' b
      then ((mul (Zpos (XO XH)) q), r')
      else ((add (mul (Zpos (XO XH)) q) (Zpos XH)), (sub r' b))
    | XO a' ->
      let (q, r) = pos_div_eucl a' b in
      let r' = mul (Zpos (XO XH)) r in
      if ltb r' b
      then ((mul (Zpos (XO XH)) q), r')
      else ((add (mul (Zpos (XO XH)) q) (Zpos XH)), (sub r' b))
    | XH -> if leb (Zpos (XO XH)) b then (Z0, (Zpos XH)) else ((Zpos XH), Z0)

  (** val div_eucl : z -> z -> z * z **)

  let div_eucl a b =
    match a with
    | Z0 -> (Z0, Z0)
    | Zpos a' ->
      (match b with
       | Z0 -> (Z0, a)
       | Zpos _ -> pos_div_eucl a' b
       | Zneg b' ->
         let (q, r) = pos_div_eucl a' (Zpos b') in
         (match r with
          | Z0 -> ((opp q), Z0)
          | _ -> ((opp (add q (Zpos XH))), (add b r))))
    | Zneg a' ->
      (match b with
       | Z0 -> (Z0, a)
       | Zpos _ ->
         let (q, r) = pos_div_eucl a' b in
         (match r with
          | Z0 -> ((opp q), Z0)
          | _ -> ((opp (add q (Zpos XH))), (sub b r)))
       | Zneg b' -> let (q, r) = pos_div_eucl a' (Zpos b') in (q, (opp r)))

  (** val div : z -> z -> z **)

  let div a b =
    let (q, _) = div_eucl a b in q

  (** val modulo : z -> z -> z **)

  let modulo a b =
    let (_, r) = div_eucl a b in r

  (** val quotrem : z -> z -> z * z **)

  let quotrem a b =
    match a with
    | Z0 -> (Z0, Z0)
    | Zpos a0 ->
      (match b with
       | Z0 -> (Z0, a)
       | Zpos b0 ->
         let (q, r) = N.pos_div_eucl a0 (Npos b0) in ((of_N q), (of_N r))
       | Zneg b0 ->
         let (q, r) = N.pos_div_eucl a0 (Npos b0) in
         ((opp (of_N q)), (of_N r)))
    | Zneg a0 ->
      (match b with
       | Z0 -> (Z0, a)
       | Zpos b0 ->
         let (q, r) = N.pos_div_eucl a0 (Npos b0) in
         ((opp (of_N q)), (opp (of_N r)))
       | Zneg b0 ->
         let (q, r) = N.pos_div_eucl a0 (Npos b0) in
         ((of_N q), (opp (of_N r))))

  (** val quot : z -> z -> z **)

  let quot a b =
    fst (quotrem a b)

  (** val rem : z -> z -> z **)

  let rem a b =
    snd (quotrem a b)

  (** val even : z -> bool **)

  let even = function
  | Z0 -> true
  | Zpos p -> (match p with
               | XO _ -> true
               | _ -> false)
  | Zneg p -> (match p with
               | XO _ -> true
               | _ -> false)

  (** val eq_dec : z -> z -> bool **)

  let eq_dec x y =
    match x with
    | Z0 -> (match y with
             | Z0 -> true
             | _ -> false)
    | Zpos p -> (match y with
                 | Zpos p0 -> Coq_Pos.eq_dec p p0
                 | _ -> false)
    | Zneg p -> (match y with
                 | Zneg p0 -> Coq_Pos.eq_dec p p0
                 | _ -> false)
 end

(** val z_lt_dec : z -> z -> bool **)

let z_lt_dec x y =
  match Z.compare x y with
  | Lt -> true
  | _ -> false

(** val z_le_dec : z -> z -> bool **)

let z_le_dec x y =
  match Z.compare x y with
  | Gt -> false
  | _ -> true

(** val rev1 : 'a1 list -> 'a1 list **)

let rec rev1 = function
| [] -> []
| x :: l' -> app (rev1 l') (x :: [])

(** val list_eq_dec : ('a1 -> 'a1 -> bool) -> 'a1 list -> 'a1 list -> bool **)

let rec list_eq_dec eq_dec0 l l' =
  match l with
  | [] -> (match l' with
           | [] -> true
           | _ :: _ -> false)
  | y :: l0 ->
    (match l' with
     | [] -> false
     | a :: l1 -> if eq_dec0 y a then list_eq_dec eq_dec0 l0 l1 else false)

(** val map : ('a1 -> 'a2) -> 'a1 list -> 'a2 list **)

let rec map f = function
| [] -> []
| a :: t0 -> (f a) :: (map f t0)

(** val fold_left : ('a1 -> 'a2 -> 'a1) -> 'a2 list -> 'a1 -> 'a1 **)

let rec fold_left f l a0 =
  match l with
  | [] -> a0
  | b :: t0 -> fold_left f t0 (f a0 b)

(** val fold_right : ('a2 -> 'a1 -> 'a1) -> 'a1 -> 'a2 list -> 'a1 **)

let rec fold_right f a0 = function
| [] -> a0
| b :: t0 -> f b (fold_right f a0 t0)

(** val forallb : ('a1 -> bool) -> 'a1 list -> bool **)

let rec forallb f = function
| [] -> true
| a :: l0 -> (&&) (f a) (forallb f l0)

(** val skipn : nat -> 'a1 list -> 'a1 list **)

let rec skipn n0 l =
  match n0 with
  | O -> l
  | S n1 -> (match l with
             | [] -> []
             | _ :: l0 -> skipn n1 l0)

type ascii =
| Ascii of bool * bool * bool * bool * bool * bool * bool * bool

type string =
| EmptyString
| String of ascii * string

(** val length0 : string -> nat **)

let rec length0 = function
| EmptyString -> O
| String (_, s') -> S (length0 s')

type decision = bool

(** val decide : decision -> bool **)

let decide decision0 =
  decision0

type ('a, 'b) relDecision = 'a -> 'b -> decision

(** val decide_rel : ('a1, 'a2) relDecision -> 'a1 -> 'a2 -> decision **)

let decide_rel relDecision0 =
  relDecision0

type 'a empty = 'a

(** val empty0 : 'a1 empty -> 'a1 **)

let empty0 empty1 =
  empty1

type 'a union = 'a -> 'a -> 'a

(** val union0 : 'a1 union -> 'a1 -> 'a1 -> 'a1 **)

let union0 union1 =
  union1

type 'a difference = 'a -> 'a -> 'a

(** val difference0 : 'a1 difference -> 'a1 -> 'a1 -> 'a1 **)

let difference0 difference1 =
  difference1

type ('a, 'b) singleton = 'a -> 'b

(** val singleton0 : ('a1, 'a2) singleton -> 'a1 -> 'a2 **)

let singleton0 singleton1 =
  singleton1

type ('a, 'b) filter = __ -> ('a -> decision) -> 'b -> 'b

(** val filter0 : ('a1, 'a2) filter -> ('a1 -> decision) -> 'a2 -> 'a2 **)

let filter0 filter1 h x =
  filter1 __ h x

type 'm mRet = __ -> __ -> 'm

(** val mret : 'a1 mRet -> 'a2 -> 'a1 **)

let mret mRet0 x =
  Obj.magic mRet0 __ x

type 'm mBind = __ -> __ -> (__ -> 'm) -> 'm -> 'm

(** val mbind : 'a1 mBind -> ('a2 -> 'a1) -> 'a1 -> 'a1 **)

let mbind mBind0 x x0 =
  Obj.magic mBind0 __ __ x x0

type 'm fMap = __ -> __ -> (__ -> __) -> 'm -> 'm

(** val fmap : 'a1 fMap -> ('a2 -> 'a3) -> 'a1 -> 'a1 **)

let fmap fMap0 x x0 =
  Obj.magic fMap0 __ __ x x0

type 'm oMap = __ -> __ -> (__ -> __ option) -> 'm -> 'm

(** val omap : 'a1 oMap -> ('a2 -> 'a3 option) -> 'a1 -> 'a1 **)

let omap oMap0 x x0 =
  Obj.magic oMap0 __ __ x x0

type ('k, 'a, 'm) lookup = 'k -> 'm -> 'a option

(** val lookup0 : ('a1, 'a2, 'a3) lookup -> 'a1 -> 'a3 -> 'a2 option **)

let lookup0 lookup1 =
  lookup1

type ('k, 'a, 'm) singletonM = 'k -> 'a -> 'm

(** val singletonM0 : ('a1, 'a2, 'a3) singletonM -> 'a1 -> 'a2 -> 'a3 **)

let singletonM0 singletonM1 =
  singletonM1

type ('k, 'a, 'm) insert = 'k -> 'a -> 'm -> 'm

(** val insert0 : ('a1, 'a2, 'a3) insert -> 'a1 -> 'a2 -> 'a3 -> 'a3 **)

let insert0 insert1 =
  insert1

type ('k, 'm) delete = 'k -> 'm -> 'm

(** val delete0 : ('a1, 'a2) delete -> 'a1 -> 'a2 -> 'a2 **)

let delete0 delete1 =
  delete1

type ('k, 'a, 'm) partialAlter = ('a option -> 'a option) -> 'k -> 'm -> 'm

(** val partial_alter :
    ('a1, 'a2, 'a3) partialAlter -> ('a2 option -> 'a2 option) -> 'a1 -> 'a3
    -> 'a3 **)

let partial_alter partialAlter0 =
  partialAlter0

type 'm merge =
  __ -> __ -> __ -> (__ option -> __ option -> __ option) -> 'm -> 'm -> 'm

(** val merge0 :
    'a1 merge -> ('a2 option -> 'a3 option -> 'a4 option) -> 'a1 -> 'a1 -> 'a1 **)

let merge0 merge1 x x0 x1 =
  Obj.magic merge1 __ __ __ x x0 x1

type ('a, 'm) unionWith = ('a -> 'a -> 'a option) -> 'm -> 'm -> 'm

(** val union_with :
    ('a1, 'a2) unionWith -> ('a1 -> 'a1 -> 'a1 option) -> 'a2 -> 'a2 -> 'a2 **)

let union_with unionWith0 =
  unionWith0

type ('a, 'm) differenceWith = ('a -> 'a -> 'a option) -> 'm -> 'm -> 'm

(** val difference_with :
    ('a1, 'a2) differenceWith -> ('a1 -> 'a1 -> 'a1 option) -> 'a2 -> 'a2 ->
    'a2 **)

let difference_with differenceWith0 =
  differenceWith0

type ('a, 'c) elements = 'c -> 'a list

(** val elements0 : ('a1, 'a2) elements -> 'a2 -> 'a1 list **)

let elements0 elements1 =
  elements1

(** val not_dec : decision -> decision **)

let not_dec = function
| true -> false
| false -> true

(** val and_dec : decision -> decision -> decision **)

let and_dec p_dec q_dec =
  if p_dec then q_dec else false

(** val or_dec : decision -> decision -> decision **)

let or_dec p_dec q_dec =
  if p_dec then true else q_dec

(** val impl_dec : decision -> decision -> decision **)

let impl_dec p_dec q_dec =
  if p_dec then q_dec else true

(** val bool_eq_dec : (bool, bool) relDecision **)

let bool_eq_dec x y =
  if x then if y then true else false else if y then false else true

(** val unit_eq_dec : (unit, unit) relDecision **)

let unit_eq_dec _ _ =
  true

(** val prod_eq_dec :
    ('a1, 'a1) relDecision -> ('a2, 'a2) relDecision -> ('a1 * 'a2,
    'a1 * 'a2) relDecision **)

let prod_eq_dec eqDecision0 eqDecision1 x y =
  let (a, b) = x in
  let (a0, b0) = y in
  if decide_rel eqDecision0 a a0 then decide_rel eqDecision1 b b0 else false

(** val uncurry_dec : ('a1 -> 'a2 -> decision) -> ('a1 * 'a2) -> decision **)

let uncurry_dec p_dec = function
| (x, y) -> p_dec x y

(** val bool_decide : decision -> bool **)

let bool_decide = function
| true -> true
| false -> false

(** val from_option : ('a1 -> 'a2) -> 'a2 -> 'a1 option -> 'a2 **)

let from_option f y = function
| Some x -> f x
| None -> y

(** val is_Some_dec : 'a1 option -> decision **)

let is_Some_dec = function
| Some _ -> true
| None -> false

(** val option_eq_dec :
    ('a1, 'a1) relDecision -> ('a1 option, 'a1 option) relDecision **)

let option_eq_dec dec mx my =
  match mx with
  | Some x ->
    (match my with
     | Some y -> decide (decide_rel dec x y)
     | None -> false)
  | None -> (match my with
             | Some _ -> false
             | None -> true)

(** val option_ret : __ -> __ option **)

let option_ret x =
  Some x

(** val option_bind : (__ -> __ option) -> __ option -> __ option **)

let option_bind f = function
| Some x -> f x
| None -> None

(** val option_fmap : (__ -> __) -> __ option -> __ option **)

let option_fmap =
  option_map

(** val option_union_with : ('a1, 'a1 option) unionWith **)

let option_union_with f mx my =
  match mx with
  | Some x -> (match my with
               | Some y -> f x y
               | None -> Some x)
  | None -> my

(** val option_difference_with : ('a1, 'a1 option) differenceWith **)

let option_difference_with f mx my =
  match mx with
  | Some x -> (match my with
               | Some y -> f x y
               | None -> Some x)
  | None -> None

module Coq_Nat = Nat

module Coq0_Pos =
 struct
  (** val eq_dec : (positive, positive) relDecision **)

  let eq_dec =
    Coq_Pos.eq_dec

  (** val app : positive -> positive -> positive **)

  let rec app p1 = function
  | XI p3 -> XI (app p1 p3)
  | XO p3 -> XO (app p1 p3)
  | XH -> p1

  (** val reverse_go : positive -> positive -> positive **)

  let rec reverse_go p1 = function
  | XI p3 -> reverse_go (XI p1) p3
  | XO p3 -> reverse_go (XO p1) p3
  | XH -> p1

  (** val reverse : positive -> positive **)

  let reverse =
    reverse_go XH

  (** val dup : positive -> positive **)

  let rec dup = function
  | XI p' -> XI (XI (dup p'))
  | XO p' -> XO (XO (dup p'))
  | XH -> XH
 end

(** val n_eq_dec : (n, n) relDecision **)

let n_eq_dec =
  N.eq_dec

module Coq_Z =
 struct
  (** val eq_dec : (z, z) relDecision **)

  let eq_dec =
    Z.eq_dec

  (** val le_dec : (z, z) relDecision **)

  let le_dec =
    z_le_dec

  (** val lt_dec : (z, z) relDecision **)

  let lt_dec =
    z_lt_dec
 end

(** val list_filter : ('a1 -> decision) -> 'a1 list -> 'a1 list **)

let rec list_filter x = function
| [] -> []
| x0 :: l0 ->
  if decide (x x0)
  then x0 :: (filter0 (fun _ -> list_filter) x l0)
  else filter0 (fun _ -> list_filter) x l0

(** val replicate : nat -> 'a1 -> 'a1 list **)

let rec replicate n0 x =
  match n0 with
  | O -> []
  | S n1 -> x :: (replicate n1 x)

(** val last : 'a1 list -> 'a1 option **)

let rec last = function
| [] -> None
| x :: l0 -> (match l0 with
              | [] -> Some x
              | _ :: _ -> last l0)

(** val list_fmap : (__ -> __) -> __ list -> __ list **)

let rec list_fmap f = function
| [] -> []
| x :: l0 -> (f x) :: (list_fmap f l0)

(** val list_omap : (__ -> __ option) -> __ list -> __ list **)

let rec list_omap f = function
| [] -> []
| x :: l0 ->
  (match f x with
   | Some y -> y :: (list_omap f l0)
   | None -> list_omap f l0)

(** val list_bind : (__ -> __ list) -> __ list -> __ list **)

let rec list_bind f = function
| [] -> []
| x :: l0 -> app (f x) (list_bind f l0)

(** val mapM : 'a1 mBind -> 'a1 mRet -> ('a2 -> 'a1) -> 'a2 list -> 'a1 **)

let rec mapM h h0 f = function
| [] -> mret h0 []
| x :: l0 ->
  mbind h (fun y -> mbind h (fun k -> mret h0 (y :: k)) (mapM h h0 f l0))
    (f x)

(** val elem_of_list_dec :
    ('a1, 'a1) relDecision -> ('a1, 'a1 list) relDecision **)

let rec elem_of_list_dec dec x = function
| [] -> false
| y :: l0 ->
  if decide (decide_rel dec x y) then true else elem_of_list_dec dec x l0

(** val positives_flatten_go : positive list -> positive -> positive **)

let rec positives_flatten_go xs acc =
  match xs with
  | [] -> acc
  | x :: xs0 ->
    positives_flatten_go xs0
      (Coq0_Pos.app (XO (XI acc)) (Coq0_Pos.reverse (Coq0_Pos.dup x)))

(** val positives_flatten : positive list -> positive **)

let positives_flatten xs =
  positives_flatten_go xs XH

(** val positives_unflatten_go :
    positive -> positive list -> positive -> positive list option **)

let rec positives_unflatten_go p acc_xs acc_elm =
  match p with
  | XI p0 ->
    (match p0 with
     | XI p' -> positives_unflatten_go p' acc_xs (XI acc_elm)
     | _ -> None)
  | XO p0 ->
    (match p0 with
     | XI p' -> positives_unflatten_go p' (acc_elm :: acc_xs) XH
     | XO p' -> positives_unflatten_go p' acc_xs (XO acc_elm)
     | XH -> None)
  | XH -> Some acc_xs

(** val positives_unflatten : positive -> positive list option **)

let positives_unflatten p =
  positives_unflatten_go p [] XH

(** val list_eq_dec0 :
    ('a1, 'a1) relDecision -> ('a1 list, 'a1 list) relDecision **)

let list_eq_dec0 =
  list_eq_dec

(** val list_eq_nil_dec : 'a1 list -> decision **)

let list_eq_nil_dec = function
| [] -> true
| _ :: _ -> false

(** val noDup_dec : ('a1, 'a1) relDecision -> 'a1 list -> decision **)

let rec noDup_dec eqDecision0 = function
| [] -> true
| x :: l0 ->
  if decide_rel (elem_of_list_dec eqDecision0) x l0
  then false
  else noDup_dec eqDecision0 l0

(** val forall_Exists_dec : ('a1 -> bool) -> 'a1 list -> bool **)

let rec forall_Exists_dec dec = function
| [] -> true
| x :: l0 -> if dec x then forall_Exists_dec dec l0 else false

(** val forall_dec : ('a1 -> decision) -> 'a1 list -> decision **)

let forall_dec =
  forall_Exists_dec

type 'a countable = { encode : ('a -> positive);
                      decode : (positive -> 'a option) }

(** val prod_encode_fst : positive -> positive **)

let rec prod_encode_fst = function
| XI p0 -> XI (XO (prod_encode_fst p0))
| XO p0 -> XO (XO (prod_encode_fst p0))
| XH -> XH

(** val prod_encode_snd : positive -> positive **)

let rec prod_encode_snd = function
| XI p0 -> XO (XI (prod_encode_snd p0))
| XO p0 -> XO (XO (prod_encode_snd p0))
| XH -> XO XH

(** val prod_encode : positive -> positive -> positive **)

let rec prod_encode p q =
  match p with
  | XI p0 ->
    (match q with
     | XI q0 -> XI (XI (prod_encode p0 q0))
     | XO q0 -> XI (XO (prod_encode p0 q0))
     | XH -> XI (XI (prod_encode_fst p0)))
  | XO p0 ->
    (match q with
     | XI q0 -> XO (XI (prod_encode p0 q0))
     | XO q0 -> XO (XO (prod_encode p0 q0))
     | XH -> XO (XI (prod_encode_fst p0)))
  | XH ->
    (match q with
     | XI q0 -> XI (XI (prod_encode_snd q0))
     | XO q0 -> XI (XO (prod_encode_snd q0))
     | XH -> XI XH)

(** val prod_decode_fst : positive -> positive option **)

let rec prod_decode_fst = function
| XI p0 ->
  (match p0 with
   | XI p1 -> Some (match prod_decode_fst p1 with
                    | Some q -> XI q
                    | None -> XH)
   | XO p1 -> Some (match prod_decode_fst p1 with
                    | Some q -> XI q
                    | None -> XH)
   | XH -> Some XH)
| XO p0 ->
  (match p0 with
   | XI p1 ->
     fmap (Obj.magic (fun _ _ -> option_fmap)) (fun x -> XO x)
       (prod_decode_fst p1)
   | XO p1 ->
     fmap (Obj.magic (fun _ _ -> option_fmap)) (fun x -> XO x)
       (prod_decode_fst p1)
   | XH -> None)
| XH -> Some XH

(** val prod_decode_snd : positive -> positive option **)

let rec prod_decode_snd = function
| XI p0 ->
  (match p0 with
   | XI p1 -> Some (match prod_decode_snd p1 with
                    | Some q -> XI q
                    | None -> XH)
   | XO p1 ->
     fmap (Obj.magic (fun _ _ -> option_fmap)) (fun x -> XO x)
       (prod_decode_snd p1)
   | XH -> Some XH)
| XO p0 ->
  (match p0 with
   | XI p1 -> Some (match prod_decode_snd p1 with
                    | Some q -> XI q
                    | None -> XH)
   | XO p1 ->
     fmap (Obj.magic (fun _ _ -> option_fmap)) (fun x -> XO x)
       (prod_decode_snd p1)
   | XH -> Some XH)
| XH -> None

(** val prod_countable :
    ('a1, 'a1) relDecision -> 'a1 countable -> ('a2, 'a2) relDecision -> 'a2
    countable -> ('a1 * 'a2) countable **)

let prod_countable _ h _ h0 =
  { encode = (fun xy ->
    prod_encode (h.encode (fst xy)) (h0.encode (snd xy))); decode = (fun p ->
    mbind (Obj.magic (fun _ _ -> option_bind)) (fun x ->
      mbind (Obj.magic (fun _ _ -> option_bind)) (fun y -> Some (x, y))
        (mbind (Obj.magic (fun _ _ -> option_bind)) (Obj.magic h0).decode
          (Obj.magic prod_decode_snd p)))
      (mbind (Obj.magic (fun _ _ -> option_bind)) (Obj.magic h).decode
        (Obj.magic prod_decode_fst p))) }

(** val list_countable :
    ('a1, 'a1) relDecision -> 'a1 countable -> 'a1 list countable **)

let list_countable _ h =
  { encode = (fun xs ->
    positives_flatten
      (fmap (Obj.magic (fun _ _ -> list_fmap)) h.encode (Obj.magic xs)));
    decode = (fun p ->
    mbind (Obj.magic (fun _ _ -> option_bind)) (fun positives ->
      mapM (Obj.magic (fun _ _ -> option_bind))
        (Obj.magic (fun _ -> option_ret)) (Obj.magic h).decode positives)
      (Obj.magic positives_unflatten p)) }

(** val n_countable : n countable **)

let n_countable =
  { encode = (fun x -> match x with
                       | N0 -> XH
                       | Npos p -> Coq_Pos.succ p); decode = (fun p ->
    if decide (decide_rel Coq0_Pos.eq_dec p XH)
    then Some N0
    else Some (Npos (Coq_Pos.pred p))) }

(** val z_countable : z countable **)

let z_countable =
  { encode = (fun x ->
    match x with
    | Z0 -> XH
    | Zpos p -> XO p
    | Zneg p -> XI p); decode = (fun p -> Some
    (match p with
     | XI p0 -> Zneg p0
     | XO p0 -> Zpos p0
     | XH -> Z0)) }

type ('k, 'a, 'm) finMapToList = 'm -> ('k * 'a) list

(** val map_to_list :
    ('a1, 'a2, 'a3) finMapToList -> 'a3 -> ('a1 * 'a2) list **)

let map_to_list finMapToList0 =
  finMapToList0

(** val diag_None :
    ('a1 option -> 'a2 option -> 'a3 option) -> 'a1 option -> 'a2 option ->
    'a3 option **)

let diag_None f mx my =
  match mx with
  | Some _ -> f mx my
  | None -> (match my with
             | Some _ -> f mx my
             | None -> None)

(** val map_insert :
    ('a1, 'a2, 'a3) partialAlter -> ('a1, 'a2, 'a3) insert **)

let map_insert h i x =
  partial_alter h (fun _ -> Some x) i

(** val map_delete : ('a1, 'a2, 'a3) partialAlter -> ('a1, 'a3) delete **)

let map_delete h =
  partial_alter h (fun _ -> None)

(** val map_singleton :
    ('a1, 'a2, 'a3) partialAlter -> 'a3 empty -> ('a1, 'a2, 'a3) singletonM **)

let map_singleton h h0 i x =
  insert0 (map_insert h) i x (empty0 h0)

(** val list_to_map :
    ('a1, 'a2, 'a3) insert -> 'a3 empty -> ('a1 * 'a2) list -> 'a3 **)

let list_to_map h h0 =
  fold_right (fun p -> insert0 h (fst p) (snd p)) (empty0 h0)

(** val map_union_with : 'a1 merge -> ('a2, 'a1) unionWith **)

let map_union_with h f =
  merge0 h (union_with option_union_with f)

(** val map_difference_with : 'a1 merge -> ('a2, 'a1) differenceWith **)

let map_difference_with h f =
  merge0 h (difference_with option_difference_with f)

(** val map_union : 'a1 merge -> 'a1 union **)

let map_union h =
  union_with (map_union_with h) (fun x _ -> Some x)

(** val map_difference : 'a1 merge -> 'a1 difference **)

let map_difference h =
  difference_with (map_difference_with h) (fun _ _ -> None)

(** val map_Forall_dec :
    'a2 fMap -> (__ -> ('a1, __, 'a2) lookup) -> (__ -> 'a2 empty) -> (__ ->
    ('a1, __, 'a2) partialAlter) -> 'a2 oMap -> 'a2 merge -> (__ -> ('a1, __,
    'a2) finMapToList) -> ('a1, 'a1) relDecision -> ('a1 -> 'a3 -> decision)
    -> 'a2 -> decision **)

let map_Forall_dec _ _ _ _ _ _ h5 _ h7 m =
  decide (forall_dec (uncurry_dec (Obj.magic h7)) (map_to_list (h5 __) m))

type 'munit mapset' =
  'munit
  (* singleton inductive, whose constructor was Mapset *)

(** val mapset_car : 'a1 mapset' -> 'a1 **)

let mapset_car m =
  m

(** val mapset_empty : (__ -> 'a1 empty) -> 'a1 mapset' empty **)

let mapset_empty h1 =
  empty0 (h1 __)

(** val mapset_singleton :
    (__ -> 'a2 empty) -> (__ -> ('a1, __, 'a2) partialAlter) -> ('a1, 'a2
    mapset') singleton **)

let mapset_singleton h1 h2 x =
  singletonM0 (map_singleton (Obj.magic h2 __) (h1 __)) x ()

(** val mapset_union : 'a1 merge -> 'a1 mapset' union **)

let mapset_union h4 x1 x2 =
  union0 (map_union h4) x1 x2

(** val mapset_difference : 'a1 merge -> 'a1 mapset' difference **)

let mapset_difference h4 x1 x2 =
  difference0 (map_difference h4) x1 x2

(** val mapset_elements :
    (__ -> ('a1, __, 'a2) finMapToList) -> ('a1, 'a2 mapset') elements **)

let mapset_elements h5 x =
  fmap (Obj.magic (fun _ _ -> list_fmap)) fst
    (Obj.magic map_to_list (h5 __) x)

(** val mapset_elem_of_dec :
    (__ -> ('a1, __, 'a2) lookup) -> ('a1, 'a2 mapset') relDecision **)

let mapset_elem_of_dec h0 x x0 =
  decide
    (decide_rel (Obj.magic option_eq_dec unit_eq_dec)
      (lookup0 (h0 __) x (mapset_car x0)) (Some ()))

type 'a pmap_raw =
| PLeaf
| PNode of 'a option * 'a pmap_raw * 'a pmap_raw

(** val pmap_raw_eq_dec :
    ('a1, 'a1) relDecision -> ('a1 pmap_raw, 'a1 pmap_raw) relDecision **)

let rec pmap_raw_eq_dec eqDecision0 x y =
  match x with
  | PLeaf -> (match y with
              | PLeaf -> true
              | PNode (_, _, _) -> false)
  | PNode (o, p, p0) ->
    (match y with
     | PLeaf -> false
     | PNode (o0, p1, p2) ->
       if decide_rel (option_eq_dec eqDecision0) o o0
       then if pmap_raw_eq_dec eqDecision0 p p1
            then pmap_raw_eq_dec eqDecision0 p0 p2
            else false
       else false)

(** val pNode' :
    'a1 option -> 'a1 pmap_raw -> 'a1 pmap_raw -> 'a1 pmap_raw **)

let pNode' o l r =
  match l with
  | PLeaf ->
    (match o with
     | Some _ -> PNode (o, l, r)
     | None ->
       (match r with
        | PLeaf -> PLeaf
        | PNode (_, _, _) -> PNode (o, l, r)))
  | PNode (_, _, _) -> PNode (o, l, r)

(** val pempty_raw : 'a1 pmap_raw empty **)

let pempty_raw =
  PLeaf

(** val plookup_raw : (positive, 'a1, 'a1 pmap_raw) lookup **)

let rec plookup_raw i = function
| PLeaf -> None
| PNode (o, l, r) ->
  (match i with
   | XI i0 -> lookup0 plookup_raw i0 r
   | XO i0 -> lookup0 plookup_raw i0 l
   | XH -> o)

(** val psingleton_raw : positive -> 'a1 -> 'a1 pmap_raw **)

let rec psingleton_raw i x =
  match i with
  | XI i0 -> PNode (None, PLeaf, (psingleton_raw i0 x))
  | XO i0 -> PNode (None, (psingleton_raw i0 x), PLeaf)
  | XH -> PNode ((Some x), PLeaf, PLeaf)

(** val ppartial_alter_raw :
    ('a1 option -> 'a1 option) -> positive -> 'a1 pmap_raw -> 'a1 pmap_raw **)

let rec ppartial_alter_raw f i = function
| PLeaf -> (match f None with
            | Some x -> psingleton_raw i x
            | None -> PLeaf)
| PNode (o, l, r) ->
  (match i with
   | XI i0 -> pNode' o l (ppartial_alter_raw f i0 r)
   | XO i0 -> pNode' o (ppartial_alter_raw f i0 l) r
   | XH -> pNode' (f o) l r)

(** val pfmap_raw : ('a1 -> 'a2) -> 'a1 pmap_raw -> 'a2 pmap_raw **)

let rec pfmap_raw f = function
| PLeaf -> PLeaf
| PNode (o, l, r) ->
  PNode ((fmap (Obj.magic (fun _ _ -> option_fmap)) f (Obj.magic o)),
    (pfmap_raw f l), (pfmap_raw f r))

(** val pto_list_raw :
    positive -> 'a1 pmap_raw -> (positive * 'a1) list -> (positive * 'a1) list **)

let rec pto_list_raw j t0 acc =
  match t0 with
  | PLeaf -> acc
  | PNode (o, l, r) ->
    app (from_option (fun x -> ((Coq0_Pos.reverse j), x) :: []) [] o)
      (pto_list_raw (XO j) l (pto_list_raw (XI j) r acc))

(** val pomap_raw : ('a1 -> 'a2 option) -> 'a1 pmap_raw -> 'a2 pmap_raw **)

let rec pomap_raw f = function
| PLeaf -> PLeaf
| PNode (o, l, r) ->
  pNode' (mbind (Obj.magic (fun _ _ -> option_bind)) f (Obj.magic o))
    (pomap_raw f l) (pomap_raw f r)

(** val pmerge_raw :
    ('a1 option -> 'a2 option -> 'a3 option) -> 'a1 pmap_raw -> 'a2 pmap_raw
    -> 'a3 pmap_raw **)

let rec pmerge_raw f t1 t2 =
  match t1 with
  | PLeaf -> pomap_raw (compose (f None) (fun x -> Some x)) t2
  | PNode (o1, l1, r1) ->
    (match t2 with
     | PLeaf -> pomap_raw (compose (flip f None) (fun x -> Some x)) t1
     | PNode (o2, l2, r2) ->
       pNode' (diag_None f o1 o2) (pmerge_raw f l1 l2) (pmerge_raw f r1 r2))

type 'a pmap =
  'a pmap_raw
  (* singleton inductive, whose constructor was PMap *)

(** val pmap_car : 'a1 pmap -> 'a1 pmap_raw **)

let pmap_car p =
  p

(** val pmap_eq_dec :
    ('a1, 'a1) relDecision -> ('a1 pmap, 'a1 pmap) relDecision **)

let pmap_eq_dec eqDecision0 m1 m2 =
  pmap_raw_eq_dec eqDecision0 (pmap_car m1) (pmap_car m2)

(** val pempty : 'a1 pmap empty **)

let pempty =
  empty0 pempty_raw

(** val plookup : (positive, 'a1, 'a1 pmap) lookup **)

let plookup i m =
  lookup0 plookup_raw i (pmap_car m)

(** val ppartial_alter : (positive, 'a1, 'a1 pmap) partialAlter **)

let ppartial_alter f i m =
  partial_alter ppartial_alter_raw f i m

(** val pfmap : (__ -> __) -> __ pmap -> __ pmap **)

let pfmap f m =
  fmap (fun _ _ -> pfmap_raw) f m

(** val pto_list : (positive, 'a1, 'a1 pmap) finMapToList **)

let pto_list m =
  pto_list_raw XH m []

(** val pomap : (__ -> __ option) -> __ pmap -> __ pmap **)

let pomap f m =
  omap (fun _ _ -> pomap_raw) f m

(** val pmerge :
    (__ option -> __ option -> __ option) -> __ pmap -> __ pmap -> __ pmap **)

let pmerge =
  pmerge_raw

type ('k, 'a) gmap =
  'a pmap
  (* singleton inductive, whose constructor was GMap *)

(** val gmap_car :
    ('a1, 'a1) relDecision -> 'a1 countable -> ('a1, 'a2) gmap -> 'a2 pmap **)

let gmap_car _ _ g =
  g

(** val gmap_eq_eq :
    ('a1, 'a1) relDecision -> 'a1 countable -> ('a2, 'a2) relDecision ->
    (('a1, 'a2) gmap, ('a1, 'a2) gmap) relDecision **)

let gmap_eq_eq eqDecision0 h eqDecision1 m1 m2 =
  decide
    (decide_rel (pmap_eq_dec eqDecision1) (gmap_car eqDecision0 h m1)
      (gmap_car eqDecision0 h m2))

(** val gmap_lookup :
    ('a1, 'a1) relDecision -> 'a1 countable -> ('a1, 'a2, ('a1, 'a2) gmap)
    lookup **)

let gmap_lookup _ h i pat =
  lookup0 plookup (h.encode i) pat

(** val gmap_empty :
    ('a1, 'a1) relDecision -> 'a1 countable -> ('a1, 'a2) gmap empty **)

let gmap_empty _ _ =
  empty0 pempty

(** val gmap_partial_alter :
    ('a1, 'a1) relDecision -> 'a1 countable -> ('a1, 'a2, ('a1, 'a2) gmap)
    partialAlter **)

let gmap_partial_alter _ h f i pat =
  partial_alter ppartial_alter f (h.encode i) pat

(** val gmap_fmap :
    ('a1, 'a1) relDecision -> 'a1 countable -> (__ -> __) -> ('a1, __) gmap
    -> ('a1, __) gmap **)

let gmap_fmap _ _ f pat =
  fmap (fun _ _ -> pfmap) f pat

(** val gmap_omap :
    ('a1, 'a1) relDecision -> 'a1 countable -> (__ -> __ option) -> ('a1, __)
    gmap -> ('a1, __) gmap **)

let gmap_omap _ _ f pat =
  omap (fun _ _ -> pomap) f pat

(** val gmap_merge :
    ('a1, 'a1) relDecision -> 'a1 countable -> (__ option -> __ option -> __
    option) -> ('a1, __) gmap -> ('a1, __) gmap -> ('a1, __) gmap **)

let gmap_merge _ _ f pat pat0 =
  merge0 (fun _ _ _ -> pmerge) f pat pat0

(** val gmap_to_list :
    ('a1, 'a1) relDecision -> 'a1 countable -> ('a1, 'a2, ('a1, 'a2) gmap)
    finMapToList **)

let gmap_to_list _ h pat =
  omap (Obj.magic (fun _ _ -> list_omap)) (fun pat0 ->
    let (i, x) = pat0 in
    fmap (Obj.magic (fun _ _ -> option_fmap)) (fun x0 -> (x0, x)) (h.decode i))
    (map_to_list (Obj.magic pto_list) pat)

type 'k gset = ('k, unit) gmap mapset'

(** val gset_empty :
    ('a1, 'a1) relDecision -> 'a1 countable -> 'a1 gset empty **)

let gset_empty eqDecision0 h =
  mapset_empty (fun _ -> gmap_empty eqDecision0 h)

(** val gset_singleton :
    ('a1, 'a1) relDecision -> 'a1 countable -> ('a1, 'a1 gset) singleton **)

let gset_singleton eqDecision0 h =
  mapset_singleton (fun _ -> gmap_empty eqDecision0 h)
    (Obj.magic (fun _ -> gmap_partial_alter eqDecision0 h))

(** val gset_union :
    ('a1, 'a1) relDecision -> 'a1 countable -> 'a1 gset union **)

let gset_union eqDecision0 h =
  mapset_union (Obj.magic (fun _ _ _ -> gmap_merge eqDecision0 h))

(** val gset_difference :
    ('a1, 'a1) relDecision -> 'a1 countable -> 'a1 gset difference **)

let gset_difference eqDecision0 h =
  mapset_difference (Obj.magic (fun _ _ _ -> gmap_merge eqDecision0 h))

(** val gset_elements :
    ('a1, 'a1) relDecision -> 'a1 countable -> ('a1, 'a1 gset) elements **)

let gset_elements eqDecision0 h =
  mapset_elements (Obj.magic (fun _ -> gmap_to_list eqDecision0 h))

(** val gset_elem_of_dec :
    ('a1, 'a1) relDecision -> 'a1 countable -> ('a1, 'a1 gset) relDecision **)

let gset_elem_of_dec eqDecision0 h =
  mapset_elem_of_dec (Obj.magic (fun _ -> gmap_lookup eqDecision0 h))

(** val list_merge :
    ('a1 -> 'a1 -> decision) -> 'a1 list -> 'a1 list -> 'a1 list **)

let rec list_merge h l1 =
  let rec list_merge_aux l2 =
    match l1 with
    | [] -> l2
    | x1 :: l3 ->
      (match l2 with
       | [] -> l1
       | x2 :: l4 ->
         if decide (h x1 x2)
         then x1 :: (list_merge h l3 (x2 :: l4))
         else x2 :: (list_merge_aux l4))
  in list_merge_aux

(** val merge_list_to_stack :
    ('a1 -> 'a1 -> decision) -> 'a1 list option list -> 'a1 list -> 'a1 list
    option list **)

let rec merge_list_to_stack h st l =
  match st with
  | [] -> (Some l) :: []
  | o :: st0 ->
    (match o with
     | Some l' -> None :: (merge_list_to_stack h st0 (list_merge h l' l))
     | None -> (Some l) :: st0)

(** val merge_stack :
    ('a1 -> 'a1 -> decision) -> 'a1 list option list -> 'a1 list **)

let rec merge_stack h = function
| [] -> []
| o :: st0 ->
  (match o with
   | Some l -> list_merge h l (merge_stack h st0)
   | None -> merge_stack h st0)

(** val merge_sort_aux :
    ('a1 -> 'a1 -> decision) -> 'a1 list option list -> 'a1 list -> 'a1 list **)

let rec merge_sort_aux h st = function
| [] -> merge_stack h st
| x :: l0 -> merge_sort_aux h (merge_list_to_stack h st (x :: [])) l0

(** val merge_sort : ('a1 -> 'a1 -> decision) -> 'a1 list -> 'a1 list **)

let merge_sort h =
  merge_sort_aux h []

type ('r, 't) setter = ('t -> 't) -> 'r -> 'r

(** val set :
    ('a1 -> 'a2) -> ('a1, 'a2) setter -> ('a2 -> 'a2) -> 'a1 -> 'a1 **)

let set _ setter0 =
  setter0

type 'a res =
| Ok of 'a
| Err
| Panic

(** val rbind : 'a1 res -> ('a1 -> 'a2 res) -> 'a2 res **)

let rbind m f =
  match m with
  | Ok a -> f a
  | Err -> Err
  | Panic -> Panic

(** val ensure : bool -> unit res **)

let ensure = function
| true -> Ok ()
| false -> Err

(** val assertp : bool -> unit res **)

let assertp = function
| true -> Ok ()
| false -> Panic

(** val must : 'a1 res -> 'a1 res **)

let must = function
| Ok a -> Ok a
| _ -> Panic

(** val rfold : ('a2 -> 'a1 -> 'a2 res) -> 'a1 list -> 'a2 -> 'a2 res **)

let rec rfold f l s =
  match l with
  | [] -> Ok s
  | x :: l' -> rbind (f s x) (fun s' -> rfold f l' s')

(** val mAXINT : z **)

let mAXINT =
  Z.pow (Zpos (XO XH)) (Zpos (XO (XO (XO (XO (XO (XO (XO (XO XH)))))))))

(** val fits : z -> bool **)

let fits z0 =
  Z.ltb (Z.abs z0) mAXINT

(** val chk : z -> z res **)

let chk z0 =
  if fits z0 then Ok z0 else Panic

(** val int_add : z -> z -> z res **)

let int_add a b =
  chk (Z.add a b)

(** val int_sub : z -> z -> z res **)

let int_sub a b =
  chk (Z.sub a b)

(** val int_mul : z -> z -> z res **)

let int_mul a b =
  chk (Z.mul a b)

(** val int_quo : z -> z -> z res **)

let int_quo a b =
  if Z.eqb b Z0 then Panic else Ok (Z.quot a b)

(** val int_mod : z -> z -> z res **)

let int_mod a b =
  if Z.eqb b Z0
  then Panic
  else Ok (if Z.ltb Z0 b then Z.modulo a b else Z.modulo a (Z.opp b))

(** val p18 : z **)

let p18 =
  Z.pow (Zpos (XO (XI (XO XH)))) (Zpos (XO (XI (XO (XO XH)))))

(** val hALF18 : z **)

let hALF18 =
  Z.mul (Zpos (XI (XO XH)))
    (Z.pow (Zpos (XO (XI (XO XH)))) (Zpos (XI (XO (XO (XO XH))))))

(** val gB : z **)

let gB =
  Z.pow (Zpos (XO (XI (XO XH)))) (Zpos (XI (XO (XO XH))))

(** val mAXDEC : z **)

let mAXDEC =
  Z.pow (Zpos (XO XH)) (Zpos (XI (XI (XO (XI (XI (XI (XO (XO XH)))))))))

(** val mAXDEC1 : z **)

let mAXDEC1 =
  Z.pow (Zpos (XO XH)) (Zpos (XO (XI (XO (XI (XI (XI (XO (XO XH)))))))))

(** val chop_round_pos : z -> z **)

let chop_round_pos d =
  let q = Z.div d p18 in
  let r = Z.modulo d p18 in
  if Z.eqb r Z0
  then q
  else if Z.ltb r hALF18
       then q
       else if Z.ltb hALF18 r
            then Z.add q (Zpos XH)
            else if Z.even q then q else Z.add q (Zpos XH)

(** val chop_round : z -> z **)

let chop_round d =
  if Z.ltb d Z0 then Z.opp (chop_round_pos (Z.opp d)) else chop_round_pos d

(** val dec_of_int : z -> z **)

let dec_of_int i =
  Z.mul i p18

(** val dec_mul : z -> z -> z res **)

let dec_mul a b =
  let c = chop_round (Z.mul a b) in
  if Z.ltb (Z.abs c) mAXDEC then Ok c else Panic

(** val dec_quo_int : z -> z -> z **)

let dec_quo_int =
  Z.quot

(** val dec_ceil : z -> z res **)

let dec_ceil d =
  let q = Z.quot d p18 in
  let r = Z.rem d p18 in
  if Z.leb r Z0
  then Ok (Z.mul q p18)
  else if Z.ltb (Z.abs d) mAXDEC1
       then Ok (Z.mul (Z.add q (Zpos XH)) p18)
       else Panic

(** val dec_truncate_int : z -> z res **)

let dec_truncate_int d =
  chk (Z.quot d p18)

(** val dec_round_int : z -> z res **)

let dec_round_int d =
  chk (chop_round d)

(** val amount_for_bytes : z -> z -> z res **)

let amount_for_bytes p b =
  let byte_price = dec_quo_int (dec_of_int p) gB in
  rbind (dec_mul (dec_of_int b) byte_price) (fun m ->
    rbind (dec_ceil m) dec_truncate_int)

(** val proportion : z -> z -> z res **)

let proportion a share =
  rbind (dec_mul (dec_of_int a) share) (fun m ->
    rbind (dec_round_int m) (fun r -> if Z.ltb r Z0 then Panic else Ok r))

(** val ceil_to1 : z -> z -> z res **)

let ceil_to1 pre v =
  if Z.leb pre Z0
  then Ok v
  else rbind (int_mod v pre) (fun m ->
         rbind (int_sub pre m) (fun d ->
           let d' = if Z.eqb d pre then Z0 else d in int_add v d'))

type addr = n list

type denom = n

type time = z

type coin = denom * z

(** val tzero : time **)

let tzero =
  Zneg (XO (XO (XO (XO (XO (XO (XO (XO (XO (XO (XO (XO (XO (XO (XO (XO (XO
    (XI (XI (XO (XO (XI (XI (XI (XO (XI (XO (XO (XO (XO (XI (XI (XO (XO (XI
    (XO (XI (XO (XO (XO (XO (XO (XI (XI (XI (XI (XI (XI (XI (XO (XI (XI (XO
    (XO (XI (XO (XO (XI (XI (XI (XI (XO (XI (XO (XI
    XH)))))))))))))))))))))))))))))))))))))))))))))))))))))))))))))))))

(** val hOUR : z **)

let hOUR =
  Zpos (XO (XO (XO (XO (XO (XO (XO (XO (XO (XO (XO (XO (XO (XI (XO (XI (XO
    (XO (XO (XI (XI (XI (XO (XI (XO (XO (XO (XO (XI (XI (XO (XO (XO (XI (XI
    (XO (XO (XO (XI (XO (XI XH)))))))))))))))))))))))))))))))))))))))))

(** val dAY : z **)

let dAY =
  Z.mul (Zpos (XO (XO (XO (XI XH))))) hOUR

type status =
| SUnspec
| SActive
| SPending
| SInactive

(** val status_eq_dec : (status, status) relDecision **)

let status_eq_dec x y =
  match x with
  | SUnspec -> (match y with
                | SUnspec -> true
                | _ -> false)
  | SActive -> (match y with
                | SActive -> true
                | _ -> false)
  | SPending -> (match y with
                 | SPending -> true
                 | _ -> false)
  | SInactive -> (match y with
                  | SInactive -> true
                  | _ -> false)

type role =
| RAcc
| RNode
| RProv

(** val role_eq_dec : (role, role) relDecision **)

let role_eq_dec x y =
  match x with
  | RAcc -> (match y with
             | RAcc -> true
             | _ -> false)
  | RNode -> (match y with
              | RNode -> true
              | _ -> false)
  | RProv -> (match y with
              | RProv -> true
              | _ -> false)

type taddr = { ta_role : role; ta_upper : bool; ta_bytes : addr }

(** val taddr_eq_dec : (taddr, taddr) relDecision **)

let taddr_eq_dec x y =
  let { ta_role = ta_role0; ta_upper = ta_upper0; ta_bytes = ta_bytes0 } = x
  in
  let { ta_role = ta_role1; ta_upper = ta_upper1; ta_bytes = ta_bytes1 } = y
  in
  if decide_rel role_eq_dec ta_role0 ta_role1
  then if decide_rel bool_eq_dec ta_upper0 ta_upper1
       then decide_rel (list_eq_dec0 n_eq_dec) ta_bytes0 ta_bytes1
       else false
  else false

(** val canon : role -> addr -> taddr **)

let canon r a =
  { ta_role = r; ta_upper = false; ta_bytes = a }

(** val ta_valid : role -> taddr -> bool **)

let ta_valid r t0 =
  (&&)
    ((&&) (bool_decide (decide_rel role_eq_dec t0.ta_role r))
      (Z.ltb Z0 (Z.of_nat (length t0.ta_bytes))))
    (Z.leb (Z.of_nat (length t0.ta_bytes)) (Zpos (XI (XI (XI (XI (XI (XI (XI
      XH)))))))))

(** val ta_eqb : taddr -> taddr -> bool **)

let ta_eqb a b =
  bool_decide (decide_rel taddr_eq_dec a b)

(** val amount_of : (denom, z) gmap -> denom -> z **)

let amount_of c d =
  from_option (Obj.magic id) Z0
    (lookup0 (gmap_lookup n_eq_dec n_countable) d c)

(** val coins_set : (denom, z) gmap -> denom -> z -> (denom, z) gmap **)

let coins_set c d a =
  if Z.eqb a Z0
  then delete0 (map_delete (gmap_partial_alter n_eq_dec n_countable)) d c
  else insert0 (map_insert (gmap_partial_alter n_eq_dec n_countable)) d a c

(** val coins_add : (denom, z) gmap -> denom -> z -> (denom, z) gmap **)

let coins_add c d a =
  coins_set c d (Z.add (amount_of c d) a)

(** val coins_sorted : coin list -> bool **)

let rec coins_sorted = function
| [] -> true
| c :: l' ->
  let (d, a) = c in
  (&&)
    ((&&) ((&&) (Z.ltb Z0 a) (negb (N.eqb d N0))) (Z.ltb (Z.abs a) mAXINT))
    (match l' with
     | [] -> true
     | c0 :: _ -> let (d', _) = c0 in (&&) (N.ltb d d') (coins_sorted l'))

(** val coins_of : coin list -> (denom, z) gmap **)

let coins_of l =
  list_to_map (map_insert (gmap_partial_alter n_eq_dec n_countable))
    (gmap_empty n_eq_dec n_countable) l

type provider = { pv_addr : addr; pv_name : string; pv_identity : string;
                  pv_website : string; pv_description : string;
                  pv_status : status; pv_status_at : time }

type node = { nd_addr : addr; nd_gb_prices : (denom, z) gmap;
              nd_hr_prices : (denom, z) gmap; nd_url : string;
              nd_inactive_at : time; nd_status : status; nd_status_at : 
              time }

type plan = { pl_id : z; pl_prov : addr; pl_duration : z; pl_gb : z;
              pl_prices : (denom, z) gmap; pl_status : status;
              pl_status_at : time }

type sub_kind =
| KNode of addr * z * z * coin
| KPlan of z * denom

type subscription = { sb_id : z; sb_addr : addr; sb_inactive_at : time;
                      sb_status : status; sb_status_at : time;
                      sb_kind : sub_kind }

type allocation = { al_id : z; al_addr : addr; al_granted : z; al_used : z }

type payout = { po_id : z; po_addr : addr; po_node : addr; po_hours : 
                z; po_price : coin; po_next_at : time }

type session = { ss_id : z; ss_sub : z; ss_node : addr; ss_addr : addr;
                 ss_up : z; ss_down : z; ss_duration : z;
                 ss_inactive_at : time; ss_status : status;
                 ss_status_at : time }

type swap = { sw_hash : n list; sw_receiver : taddr; sw_amount : coin }

type inflation = { inf_max : z; inf_min : z; inf_rate : z; inf_ts : time }

type params = { p_prov_deposit : coin; p_prov_share : z;
                p_node_deposit : coin; p_node_active : z;
                p_max_gb : (denom, z) gmap; p_min_gb : (denom, z) gmap;
                p_max_hr : (denom, z) gmap; p_min_hr : (denom, z) gmap;
                p_max_sub_gb : z; p_min_sub_gb : z; p_max_sub_hr : z;
                p_min_sub_hr : z; p_node_share : z; p_sub_delay : z;
                p_sess_delay : z; p_sess_proof : bool; p_swap_enabled : 
                bool; p_swap_denom : denom; p_swap_approver : taddr }

type modflags = { m_max_gb : bool; m_min_gb : bool; m_max_hr : bool;
                  m_min_hr : bool }

type config = { c_deposit : addr; c_feecoll : addr; c_distr : addr;
                c_swap : addr; c_blocked : addr list }

type evv =
| VZ of z
| VT of taddr
| VS of status
| VC of coin list
| VH of n list

type event = string * evv list

(** val ev : string -> evv list -> event **)

let ev name vals =
  (name, vals)

type state = { cfg : config; bank : (addr, (denom, z) gmap) gmap;
               supply : (denom, z) gmap;
               deposits : (addr, (denom, z) gmap) gmap;
               prov_act : (addr, provider) gmap;
               prov_inact : (addr, provider) gmap;
               node_act : (addr, node) gmap; node_inact : (addr, node) gmap;
               node_q : (time * addr) gset; node_plan : (z * addr) gset;
               plan_count : z; plan_act : (z, plan) gmap;
               plan_inact : (z, plan) gmap; plan_prov : (addr * z) gset;
               sub_count : z; subs : (z, subscription) gmap;
               sub_q : (time * z) gset; sub_acc : (addr * z) gset;
               sub_node : (addr * z) gset; sub_plan : (z * z) gset;
               allocs : (z * addr, allocation) gmap;
               payouts : (z, payout) gmap; pay_q : (time * z) gset;
               pay_acc : (addr * z) gset; pay_node : (addr * z) gset;
               pay_acc_node : ((addr * addr) * z) gset; sess_count : 
               z; sessions : (z, session) gmap; sess_q : (time * z) gset;
               sess_acc : (addr * z) gset; sess_node : (addr * z) gset;
               sess_sub : (z * z) gset; sess_alloc : ((z * addr) * z) gset;
               pars : params; modified : modflags;
               swaps : (n list, swap) gmap;
               inflations : (time, inflation) gmap; mint_max : z;
               mint_min : z; mint_rate : z; mint_inflation : z; now : 
               time; events : event list }

type msg =
| MProvRegister of taddr * string * string * string * string * bool
| MProvUpdate of taddr * string * string * string * string * bool * status
| MNodeRegister of taddr * coin list option * coin list option * string * bool
| MNodeUpdateDetails of taddr * coin list option * coin list option * 
   string * bool
| MNodeUpdateStatus of taddr * status
| MNodeSubscribe of taddr * taddr * z * z * denom
| MPlanCreate of taddr * z * z * coin list option
| MPlanUpdateStatus of taddr * z * status
| MPlanLink of taddr * z * taddr
| MPlanUnlink of taddr * z * taddr
| MPlanSubscribe of taddr * z * denom
| MSubCancel of taddr * z
| MSubAllocate of taddr * z * taddr * z
| MSessStart of taddr * z * taddr
| MSessUpdate of taddr * z * z * z * z * z option * bool
| MSessEnd of taddr * z * z
| MSwap of taddr * n list * taddr * z

type pchange =
| PCProvDeposit of coin
| PCProvShare of z
| PCNodeDeposit of coin
| PCNodeActive of z
| PCMaxGb of coin list
| PCMinGb of coin list
| PCMaxHr of coin list
| PCMinHr of coin list
| PCMaxSubGb of z
| PCMinSubGb of z
| PCMaxSubHr of z
| PCMinSubHr of z
| PCNodeShare of z
| PCSubDelay of z
| PCSessDelay of z
| PCSessProof of bool
| PCSwapEnabled of bool
| PCSwapDenom of denom
| PCSwapApprover of taddr

type op =
| OBegin of time
| OTx of msg
| OGov of pchange list
| OEnd

type outcome =
| OOk of state
| ORejected
| OHalt

(** val bytes_cmp : n list -> n list -> comparison **)

let rec bytes_cmp a b =
  match a with
  | [] -> (match b with
           | [] -> Eq
           | _ :: _ -> Lt)
  | x :: a' ->
    (match b with
     | [] -> Gt
     | y :: b' -> (match N.compare x y with
                   | Eq -> bytes_cmp a' b'
                   | x0 -> x0))

(** val addr_cmp : addr -> addr -> comparison **)

let addr_cmp a b =
  match Coq_Nat.compare (length a) (length b) with
  | Eq -> bytes_cmp a b
  | x -> x

(** val lex :
    ('a1 -> 'a1 -> comparison) -> ('a2 -> 'a2 -> comparison) -> ('a1 * 'a2)
    -> ('a1 * 'a2) -> comparison **)

let lex ca cb x y =
  match ca (fst x) (fst y) with
  | Eq -> cb (snd x) (snd y)
  | x0 -> x0

(** val cmp_le_dec : ('a1 -> 'a1 -> comparison) -> 'a1 -> 'a1 -> decision **)

let cmp_le_dec c x y =
  let c0 = c x y in (match c0 with
                     | Gt -> false
                     | _ -> true)

(** val sort_by : ('a1 -> 'a1 -> comparison) -> 'a1 list -> 'a1 list **)

let sort_by c l =
  merge_sort (cmp_le_dec c) l

(** val cmp_tz : (time * z) -> (time * z) -> comparison **)

let cmp_tz =
  lex Z.compare Z.compare

(** val cmp_ta : (time * addr) -> (time * addr) -> comparison **)

let cmp_ta =
  lex Z.compare addr_cmp

(** val cmp_za : (z * addr) -> (z * addr) -> comparison **)

let cmp_za =
  lex Z.compare addr_cmp

(** val coins_list : (denom, z) gmap -> coin list **)

let coins_list c =
  sort_by (fun x y -> N.compare (fst x) (fst y))
    (map_to_list (gmap_to_list n_eq_dec n_countable) c)

(** val emit : event -> state -> state **)

let emit e s =
  set (fun s0 -> s0.events) (fun f ->
    let l = fun r -> f r.events in
    (fun x -> { cfg = x.cfg; bank = x.bank; supply = x.supply; deposits =
    x.deposits; prov_act = x.prov_act; prov_inact = x.prov_inact; node_act =
    x.node_act; node_inact = x.node_inact; node_q = x.node_q; node_plan =
    x.node_plan; plan_count = x.plan_count; plan_act = x.plan_act;
    plan_inact = x.plan_inact; plan_prov = x.plan_prov; sub_count =
    x.sub_count; subs = x.subs; sub_q = x.sub_q; sub_acc = x.sub_acc;
    sub_node = x.sub_node; sub_plan = x.sub_plan; allocs = x.allocs;
    payouts = x.payouts; pay_q = x.pay_q; pay_acc = x.pay_acc; pay_node =
    x.pay_node; pay_acc_node = x.pay_acc_node; sess_count = x.sess_count;
    sessions = x.sessions; sess_q = x.sess_q; sess_acc = x.sess_acc;
    sess_node = x.sess_node; sess_sub = x.sess_sub; sess_alloc =
    x.sess_alloc; pars = x.pars; modified = x.modified; swaps = x.swaps;
    inflations = x.inflations; mint_max = x.mint_max; mint_min = x.mint_min;
    mint_rate = x.mint_rate; mint_inflation = x.mint_inflation; now = x.now;
    events = (l x) })) (fun l -> app l (e :: [])) s

(** val bal : state -> addr -> denom -> z **)

let bal s a d =
  amount_of
    (from_option (Obj.magic id) (empty0 (gmap_empty n_eq_dec n_countable))
      (lookup0
        (gmap_lookup (list_eq_dec0 n_eq_dec)
          (list_countable n_eq_dec n_countable)) a s.bank)) d

(** val set_bal : state -> addr -> denom -> z -> state **)

let set_bal s a d v =
  set (Obj.magic (fun s0 -> s0.bank)) (fun f ->
    let g = fun r -> Obj.magic f r.bank in
    (fun x -> { cfg = x.cfg; bank = (g x); supply = x.supply; deposits =
    x.deposits; prov_act = x.prov_act; prov_inact = x.prov_inact; node_act =
    x.node_act; node_inact = x.node_inact; node_q = x.node_q; node_plan =
    x.node_plan; plan_count = x.plan_count; plan_act = x.plan_act;
    plan_inact = x.plan_inact; plan_prov = x.plan_prov; sub_count =
    x.sub_count; subs = x.subs; sub_q = x.sub_q; sub_acc = x.sub_acc;
    sub_node = x.sub_node; sub_plan = x.sub_plan; allocs = x.allocs;
    payouts = x.payouts; pay_q = x.pay_q; pay_acc = x.pay_acc; pay_node =
    x.pay_node; pay_acc_node = x.pay_acc_node; sess_count = x.sess_count;
    sessions = x.sessions; sess_q = x.sess_q; sess_acc = x.sess_acc;
    sess_node = x.sess_node; sess_sub = x.sess_sub; sess_alloc =
    x.sess_alloc; pars = x.pars; modified = x.modified; swaps = x.swaps;
    inflations = x.inflations; mint_max = x.mint_max; mint_min = x.mint_min;
    mint_rate = x.mint_rate; mint_inflation = x.mint_inflation; now = x.now;
    events = x.events })) (fun b ->
    insert0
      (map_insert
        (Obj.magic gmap_partial_alter (list_eq_dec0 n_eq_dec)
          (list_countable n_eq_dec n_countable))) a
      (coins_set
        (from_option (Obj.magic id)
          (empty0 (gmap_empty n_eq_dec n_countable))
          (lookup0
            (gmap_lookup (list_eq_dec0 n_eq_dec)
              (list_countable n_eq_dec n_countable)) a b)) d v) b) s

(** val is_blocked : state -> addr -> bool **)

let is_blocked s a =
  bool_decide
    (decide_rel (elem_of_list_dec (list_eq_dec0 n_eq_dec)) a s.cfg.c_blocked)

(** val bank_send : state -> addr -> addr -> denom -> z -> state res **)

let bank_send s from to0 d amt =
  if Z.ltb amt Z0
  then Panic
  else if Z.eqb amt Z0
       then Ok s
       else if Z.ltb (bal s from d) amt
            then Err
            else let s1 = set_bal s from d (Z.sub (bal s from d) amt) in
                 Ok (set_bal s1 to0 d (Z.add (bal s1 to0 d) amt))

(** val bank_send_to_account :
    state -> addr -> addr -> denom -> z -> state res **)

let bank_send_to_account s from to0 d amt =
  if is_blocked s to0 then Err else bank_send s from to0 d amt

(** val bank_mint : state -> addr -> denom -> z -> state res **)

let bank_mint s module0 d amt =
  if Z.leb amt Z0
  then Panic
  else let s1 =
         set (fun s0 -> s0.supply) (fun f ->
           let g = fun r -> f r.supply in
           (fun x -> { cfg = x.cfg; bank = x.bank; supply = (g x); deposits =
           x.deposits; prov_act = x.prov_act; prov_inact = x.prov_inact;
           node_act = x.node_act; node_inact = x.node_inact; node_q =
           x.node_q; node_plan = x.node_plan; plan_count = x.plan_count;
           plan_act = x.plan_act; plan_inact = x.plan_inact; plan_prov =
           x.plan_prov; sub_count = x.sub_count; subs = x.subs; sub_q =
           x.sub_q; sub_acc = x.sub_acc; sub_node = x.sub_node; sub_plan =
           x.sub_plan; allocs = x.allocs; payouts = x.payouts; pay_q =
           x.pay_q; pay_acc = x.pay_acc; pay_node = x.pay_node;
           pay_acc_node = x.pay_acc_node; sess_count = x.sess_count;
           sessions = x.sessions; sess_q = x.sess_q; sess_acc = x.sess_acc;
           sess_node = x.sess_node; sess_sub = x.sess_sub; sess_alloc =
           x.sess_alloc; pars = x.pars; modified = x.modified; swaps =
           x.swaps; inflations = x.inflations; mint_max = x.mint_max;
           mint_min = x.mint_min; mint_rate = x.mint_rate; mint_inflation =
           x.mint_inflation; now = x.now; events = x.events })) (fun c ->
           coins_add c d amt) s
       in
       Ok (set_bal s1 module0 d (Z.add (bal s1 module0 d) amt))

(** val dep_of : state -> addr -> (denom, z) gmap **)

let dep_of s a =
  from_option (Obj.magic id) (empty0 (gmap_empty n_eq_dec n_countable))
    (lookup0
      (gmap_lookup (list_eq_dec0 n_eq_dec)
        (list_countable n_eq_dec n_countable)) a s.deposits)

(** val dep_add : state -> addr -> denom -> z -> state res **)

let dep_add s a d amt =
  rbind (bank_send s a s.cfg.c_deposit d amt) (fun s1 ->
    let dep = coins_add (dep_of s1 a) d amt in
    Ok
    (emit
      (ev (String ((Ascii (false, false, true, false, false, true, true,
        false)), (String ((Ascii (true, false, true, false, false, true,
        true, false)), (String ((Ascii (false, false, false, false, true,
        true, true, false)), (String ((Ascii (true, true, true, true, false,
        true, true, false)), (String ((Ascii (true, true, false, false, true,
        true, true, false)), (String ((Ascii (true, false, false, true,
        false, true, true, false)), (String ((Ascii (false, false, true,
        false, true, true, true, false)), (String ((Ascii (false, true, true,
        true, false, true, false, false)), (String ((Ascii (true, false,
        true, false, false, false, true, false)), (String ((Ascii (false,
        true, true, false, true, true, true, false)), (String ((Ascii (true,
        false, true, false, false, true, true, false)), (String ((Ascii
        (false, true, true, true, false, true, true, false)), (String ((Ascii
        (false, false, true, false, true, true, true, false)), (String
        ((Ascii (true, false, false, false, false, false, true, false)),
        (String ((Ascii (false, false, true, false, false, true, true,
        false)), (String ((Ascii (false, false, true, false, false, true,
        true, false)), EmptyString)))))))))))))))))))))))))))))))) ((VT
        (canon RAcc a)) :: ((VC ((d, amt) :: [])) :: [])))
      (set (fun s0 -> s0.deposits) (fun f ->
        let g = fun r -> f r.deposits in
        (fun x -> { cfg = x.cfg; bank = x.bank; supply = x.supply; deposits =
        (g x); prov_act = x.prov_act; prov_inact = x.prov_inact; node_act =
        x.node_act; node_inact = x.node_inact; node_q = x.node_q; node_plan =
        x.node_plan; plan_count = x.plan_count; plan_act = x.plan_act;
        plan_inact = x.plan_inact; plan_prov = x.plan_prov; sub_count =
        x.sub_count; subs = x.subs; sub_q = x.sub_q; sub_acc = x.sub_acc;
        sub_node = x.sub_node; sub_plan = x.sub_plan; allocs = x.allocs;
        payouts = x.payouts; pay_q = x.pay_q; pay_acc = x.pay_acc; pay_node =
        x.pay_node; pay_acc_node = x.pay_acc_node; sess_count = x.sess_count;
        sessions = x.sessions; sess_q = x.sess_q; sess_acc = x.sess_acc;
        sess_node = x.sess_node; sess_sub = x.sess_sub; sess_alloc =
        x.sess_alloc; pars = x.pars; modified = x.modified; swaps = x.swaps;
        inflations = x.inflations; mint_max = x.mint_max; mint_min =
        x.mint_min; mint_rate = x.mint_rate; mint_inflation =
        x.mint_inflation; now = x.now; events = x.events })) (fun m ->
        insert0
          (map_insert
            (gmap_partial_alter (list_eq_dec0 n_eq_dec)
              (list_countable n_eq_dec n_countable))) a dep m) s1)))

(** val dep_remaining : state -> addr -> denom -> z -> (denom, z) gmap res **)

let dep_remaining s from d amt =
  match lookup0
          (gmap_lookup (list_eq_dec0 n_eq_dec)
            (list_countable n_eq_dec n_countable)) from s.deposits with
  | Some dep ->
    let r = Z.sub (amount_of dep d) amt in
    if Z.ltb r Z0 then Err else Ok (coins_set dep d r)
  | None -> Err

(** val dep_store : state -> addr -> (denom, z) gmap -> state **)

let dep_store s from dep =
  if bool_decide
       (decide_rel (gmap_eq_eq n_eq_dec n_countable Coq_Z.eq_dec) dep
         (empty0 (gmap_empty n_eq_dec n_countable)))
  then set (fun s0 -> s0.deposits) (fun f ->
         let g = fun r -> f r.deposits in
         (fun x -> { cfg = x.cfg; bank = x.bank; supply = x.supply;
         deposits = (g x); prov_act = x.prov_act; prov_inact = x.prov_inact;
         node_act = x.node_act; node_inact = x.node_inact; node_q = x.node_q;
         node_plan = x.node_plan; plan_count = x.plan_count; plan_act =
         x.plan_act; plan_inact = x.plan_inact; plan_prov = x.plan_prov;
         sub_count = x.sub_count; subs = x.subs; sub_q = x.sub_q; sub_acc =
         x.sub_acc; sub_node = x.sub_node; sub_plan = x.sub_plan; allocs =
         x.allocs; payouts = x.payouts; pay_q = x.pay_q; pay_acc = x.pay_acc;
         pay_node = x.pay_node; pay_acc_node = x.pay_acc_node; sess_count =
         x.sess_count; sessions = x.sessions; sess_q = x.sess_q; sess_acc =
         x.sess_acc; sess_node = x.sess_node; sess_sub = x.sess_sub;
         sess_alloc = x.sess_alloc; pars = x.pars; modified = x.modified;
         swaps = x.swaps; inflations = x.inflations; mint_max = x.mint_max;
         mint_min = x.mint_min; mint_rate = x.mint_rate; mint_inflation =
         x.mint_inflation; now = x.now; events = x.events })) (fun m ->
         delete0
           (map_delete
             (gmap_partial_alter (list_eq_dec0 n_eq_dec)
               (list_countable n_eq_dec n_countable))) from m) s
  else set (fun s0 -> s0.deposits) (fun f ->
         let g = fun r -> f r.deposits in
         (fun x -> { cfg = x.cfg; bank = x.bank; supply = x.supply;
         deposits = (g x); prov_act = x.prov_act; prov_inact = x.prov_inact;
         node_act = x.node_act; node_inact = x.node_inact; node_q = x.node_q;
         node_plan = x.node_plan; plan_count = x.plan_count; plan_act =
         x.plan_act; plan_inact = x.plan_inact; plan_prov = x.plan_prov;
         sub_count = x.sub_count; subs = x.subs; sub_q = x.sub_q; sub_acc =
         x.sub_acc; sub_node = x.sub_node; sub_plan = x.sub_plan; allocs =
         x.allocs; payouts = x.payouts; pay_q = x.pay_q; pay_acc = x.pay_acc;
         pay_node = x.pay_node; pay_acc_node = x.pay_acc_node; sess_count =
         x.sess_count; sessions = x.sessions; sess_q = x.sess_q; sess_acc =
         x.sess_acc; sess_node = x.sess_node; sess_sub = x.sess_sub;
         sess_alloc = x.sess_alloc; pars = x.pars; modified = x.modified;
         swaps = x.swaps; inflations = x.inflations; mint_max = x.mint_max;
         mint_min = x.mint_min; mint_rate = x.mint_rate; mint_inflation =
         x.mint_inflation; now = x.now; events = x.events })) (fun m ->
         insert0
           (map_insert
             (gmap_partial_alter (list_eq_dec0 n_eq_dec)
               (list_countable n_eq_dec n_countable))) from dep m) s

(** val dep_to_account : state -> addr -> addr -> denom -> z -> state res **)

let dep_to_account s from to0 d amt =
  rbind (dep_remaining s from d amt) (fun dep ->
    rbind (bank_send_to_account s s.cfg.c_deposit to0 d amt) (fun s1 -> Ok
      (emit
        (ev (String ((Ascii (false, false, true, false, false, true, true,
          false)), (String ((Ascii (true, false, true, false, false, true,
          true, false)), (String ((Ascii (false, false, false, false, true,
          true, true, false)), (String ((Ascii (true, true, true, true,
          false, true, true, false)), (String ((Ascii (true, true, false,
          false, true, true, true, false)), (String ((Ascii (true, false,
          false, true, false, true, true, false)), (String ((Ascii (false,
          false, true, false, true, true, true, false)), (String ((Ascii
          (false, true, true, true, false, true, false, false)), (String
          ((Ascii (true, false, true, false, false, false, true, false)),
          (String ((Ascii (false, true, true, false, true, true, true,
          false)), (String ((Ascii (true, false, true, false, false, true,
          true, false)), (String ((Ascii (false, true, true, true, false,
          true, true, false)), (String ((Ascii (false, false, true, false,
          true, true, true, false)), (String ((Ascii (true, true, false,
          false, true, false, true, false)), (String ((Ascii (true, false,
          true, false, true, true, true, false)), (String ((Ascii (false,
          true, false, false, false, true, true, false)), (String ((Ascii
          (false, false, true, false, true, true, true, false)), (String
          ((Ascii (false, true, false, false, true, true, true, false)),
          (String ((Ascii (true, false, false, false, false, true, true,
          false)), (String ((Ascii (true, true, false, false, false, true,
          true, false)), (String ((Ascii (false, false, true, false, true,
          true, true, false)),
          EmptyString)))))))))))))))))))))))))))))))))))))))))) ((VT
          (canon RAcc from)) :: ((VC ((d, amt) :: [])) :: [])))
        (dep_store s1 from dep))))

(** val dep_to_module : state -> addr -> addr -> denom -> z -> state res **)

let dep_to_module s from module0 d amt =
  rbind (dep_remaining s from d amt) (fun dep ->
    rbind (bank_send s s.cfg.c_deposit module0 d amt) (fun s1 -> Ok
      (emit
        (ev (String ((Ascii (false, false, true, false, false, true, true,
          false)), (String ((Ascii (true, false, true, false, false, true,
          true, false)), (String ((Ascii (false, false, false, false, true,
          true, true, false)), (String ((Ascii (true, true, true, true,
          false, true, true, false)), (String ((Ascii (true, true, false,
          false, true, true, true, false)), (String ((Ascii (true, false,
          false, true, false, true, true, false)), (String ((Ascii (false,
          false, true, false, true, true, true, false)), (String ((Ascii
          (false, true, true, true, false, true, false, false)), (String
          ((Ascii (true, false, true, false, false, false, true, false)),
          (String ((Ascii (false, true, true, false, true, true, true,
          false)), (String ((Ascii (true, false, true, false, false, true,
          true, false)), (String ((Ascii (false, true, true, true, false,
          true, true, false)), (String ((Ascii (false, false, true, false,
          true, true, true, false)), (String ((Ascii (true, true, false,
          false, true, false, true, false)), (String ((Ascii (true, false,
          true, false, true, true, true, false)), (String ((Ascii (false,
          true, false, false, false, true, true, false)), (String ((Ascii
          (false, false, true, false, true, true, true, false)), (String
          ((Ascii (false, true, false, false, true, true, true, false)),
          (String ((Ascii (true, false, false, false, false, true, true,
          false)), (String ((Ascii (true, true, false, false, false, true,
          true, false)), (String ((Ascii (false, false, true, false, true,
          true, true, false)),
          EmptyString)))))))))))))))))))))))))))))))))))))))))) ((VT
          (canon RAcc from)) :: ((VC ((d, amt) :: [])) :: [])))
        (dep_store s1 from dep))))

(** val z_send : state -> addr -> addr -> coin -> state res **)

let z_send s from to0 c =
  if Z.eqb (snd c) Z0 then Ok s else bank_send s from to0 (fst c) (snd c)

(** val z_dep_add : state -> addr -> coin -> state res **)

let z_dep_add s a c =
  if Z.eqb (snd c) Z0 then Ok s else dep_add s a (fst c) (snd c)

(** val z_dep_to_account : state -> addr -> addr -> coin -> state res **)

let z_dep_to_account s from to0 c =
  if Z.eqb (snd c) Z0 then Ok s else dep_to_account s from to0 (fst c) (snd c)

(** val z_dep_to_module : state -> addr -> addr -> coin -> state res **)

let z_dep_to_module s from module0 c =
  if Z.eqb (snd c) Z0
  then Ok s
  else dep_to_module s from module0 (fst c) (snd c)

(** val fund_pool : state -> addr -> coin -> state res **)

let fund_pool s from c =
  if Z.eqb (snd c) Z0
  then Ok s
  else bank_send s from s.cfg.c_distr (fst c) (snd c)

(** val new_coin : denom -> z -> coin res **)

let new_coin d a =
  if Z.ltb a Z0 then Panic else Ok (d, a)

(** val coin_sub : coin -> z -> coin res **)

let coin_sub c a =
  rbind (int_sub (snd c) a) (fun r -> new_coin (fst c) r)

(** val get_provider : state -> addr -> provider option **)

let get_provider s a =
  match lookup0
          (gmap_lookup (list_eq_dec0 n_eq_dec)
            (list_countable n_eq_dec n_countable)) a s.prov_act with
  | Some p -> Some p
  | None ->
    lookup0
      (gmap_lookup (list_eq_dec0 n_eq_dec)
        (list_countable n_eq_dec n_countable)) a s.prov_inact

(** val has_provider : state -> addr -> bool **)

let has_provider s a =
  bool_decide (is_Some_dec (get_provider s a))

(** val set_provider : state -> provider -> state res **)

let set_provider s p =
  match p.pv_status with
  | SActive ->
    Ok
      (set (fun s0 -> s0.prov_act) (fun f ->
        let g = fun r -> f r.prov_act in
        (fun x -> { cfg = x.cfg; bank = x.bank; supply = x.supply; deposits =
        x.deposits; prov_act = (g x); prov_inact = x.prov_inact; node_act =
        x.node_act; node_inact = x.node_inact; node_q = x.node_q; node_plan =
        x.node_plan; plan_count = x.plan_count; plan_act = x.plan_act;
        plan_inact = x.plan_inact; plan_prov = x.plan_prov; sub_count =
        x.sub_count; subs = x.subs; sub_q = x.sub_q; sub_acc = x.sub_acc;
        sub_node = x.sub_node; sub_plan = x.sub_plan; allocs = x.allocs;
        payouts = x.payouts; pay_q = x.pay_q; pay_acc = x.pay_acc; pay_node =
        x.pay_node; pay_acc_node = x.pay_acc_node; sess_count = x.sess_count;
        sessions = x.sessions; sess_q = x.sess_q; sess_acc = x.sess_acc;
        sess_node = x.sess_node; sess_sub = x.sess_sub; sess_alloc =
        x.sess_alloc; pars = x.pars; modified = x.modified; swaps = x.swaps;
        inflations = x.inflations; mint_max = x.mint_max; mint_min =
        x.mint_min; mint_rate = x.mint_rate; mint_inflation =
        x.mint_inflation; now = x.now; events = x.events })) (fun m ->
        insert0
          (map_insert
            (gmap_partial_alter (list_eq_dec0 n_eq_dec)
              (list_countable n_eq_dec n_countable))) p.pv_addr p m) s)
  | SInactive ->
    Ok
      (set (fun s0 -> s0.prov_inact) (fun f ->
        let g = fun r -> f r.prov_inact in
        (fun x -> { cfg = x.cfg; bank = x.bank; supply = x.supply; deposits =
        x.deposits; prov_act = x.prov_act; prov_inact = (g x); node_act =
        x.node_act; node_inact = x.node_inact; node_q = x.node_q; node_plan =
        x.node_plan; plan_count = x.plan_count; plan_act = x.plan_act;
        plan_inact = x.plan_inact; plan_prov = x.plan_prov; sub_count =
        x.sub_count; subs = x.subs; sub_q = x.sub_q; sub_acc = x.sub_acc;
        sub_node = x.sub_node; sub_plan = x.sub_plan; allocs = x.allocs;
        payouts = x.payouts; pay_q = x.pay_q; pay_acc = x.pay_acc; pay_node =
        x.pay_node; pay_acc_node = x.pay_acc_node; sess_count = x.sess_count;
        sessions = x.sessions; sess_q = x.sess_q; sess_acc = x.sess_acc;
        sess_node = x.sess_node; sess_sub = x.sess_sub; sess_alloc =
        x.sess_alloc; pars = x.pars; modified = x.modified; swaps = x.swaps;
        inflations = x.inflations; mint_max = x.mint_max; mint_min =
        x.mint_min; mint_rate = x.mint_rate; mint_inflation =
        x.mint_inflation; now = x.now; events = x.events })) (fun m ->
        insert0
          (map_insert
            (gmap_partial_alter (list_eq_dec0 n_eq_dec)
              (list_countable n_eq_dec n_countable))) p.pv_addr p m) s)
  | _ -> Panic

(** val get_node : state -> addr -> node option **)

let get_node s a =
  match lookup0
          (gmap_lookup (list_eq_dec0 n_eq_dec)
            (list_countable n_eq_dec n_countable)) a s.node_act with
  | Some n0 -> Some n0
  | None ->
    lookup0
      (gmap_lookup (list_eq_dec0 n_eq_dec)
        (list_countable n_eq_dec n_countable)) a s.node_inact

(** val has_node : state -> addr -> bool **)

let has_node s a =
  bool_decide (is_Some_dec (get_node s a))

(** val set_node : state -> node -> state res **)

let set_node s n0 =
  match n0.nd_status with
  | SActive ->
    Ok
      (set (fun s0 -> s0.node_act) (fun f ->
        let g = fun r -> f r.node_act in
        (fun x -> { cfg = x.cfg; bank = x.bank; supply = x.supply; deposits =
        x.deposits; prov_act = x.prov_act; prov_inact = x.prov_inact;
        node_act = (g x); node_inact = x.node_inact; node_q = x.node_q;
        node_plan = x.node_plan; plan_count = x.plan_count; plan_act =
        x.plan_act; plan_inact = x.plan_inact; plan_prov = x.plan_prov;
        sub_count = x.sub_count; subs = x.subs; sub_q = x.sub_q; sub_acc =
        x.sub_acc; sub_node = x.sub_node; sub_plan = x.sub_plan; allocs =
        x.allocs; payouts = x.payouts; pay_q = x.pay_q; pay_acc = x.pay_acc;
        pay_node = x.pay_node; pay_acc_node = x.pay_acc_node; sess_count =
        x.sess_count; sessions = x.sessions; sess_q = x.sess_q; sess_acc =
        x.sess_acc; sess_node = x.sess_node; sess_sub = x.sess_sub;
        sess_alloc = x.sess_alloc; pars = x.pars; modified = x.modified;
        swaps = x.swaps; inflations = x.inflations; mint_max = x.mint_max;
        mint_min = x.mint_min; mint_rate = x.mint_rate; mint_inflation =
        x.mint_inflation; now = x.now; events = x.events })) (fun m ->
        insert0
          (map_insert
            (gmap_partial_alter (list_eq_dec0 n_eq_dec)
              (list_countable n_eq_dec n_countable))) n0.nd_addr n0 m) s)
  | SInactive ->
    Ok
      (set (fun s0 -> s0.node_inact) (fun f ->
        let g = fun r -> f r.node_inact in
        (fun x -> { cfg = x.cfg; bank = x.bank; supply = x.supply; deposits =
        x.deposits; prov_act = x.prov_act; prov_inact = x.prov_inact;
        node_act = x.node_act; node_inact = (g x); node_q = x.node_q;
        node_plan = x.node_plan; plan_count = x.plan_count; plan_act =
        x.plan_act; plan_inact = x.plan_inact; plan_prov = x.plan_prov;
        sub_count = x.sub_count; subs = x.subs; sub_q = x.sub_q; sub_acc =
        x.sub_acc; sub_node = x.sub_node; sub_plan = x.sub_plan; allocs =
        x.allocs; payouts = x.payouts; pay_q = x.pay_q; pay_acc = x.pay_acc;
        pay_node = x.pay_node; pay_acc_node = x.pay_acc_node; sess_count =
        x.sess_count; sessions = x.sessions; sess_q = x.sess_q; sess_acc =
        x.sess_acc; sess_node = x.sess_node; sess_sub = x.sess_sub;
        sess_alloc = x.sess_alloc; pars = x.pars; modified = x.modified;
        swaps = x.swaps; inflations = x.inflations; mint_max = x.mint_max;
        mint_min = x.mint_min; mint_rate = x.mint_rate; mint_inflation =
        x.mint_inflation; now = x.now; events = x.events })) (fun m ->
        insert0
          (map_insert
            (gmap_partial_alter (list_eq_dec0 n_eq_dec)
              (list_countable n_eq_dec n_countable))) n0.nd_addr n0 m) s)
  | _ -> Panic

(** val get_plan : state -> z -> plan option **)

let get_plan s id0 =
  match lookup0 (gmap_lookup Coq_Z.eq_dec z_countable) id0 s.plan_act with
  | Some p -> Some p
  | None -> lookup0 (gmap_lookup Coq_Z.eq_dec z_countable) id0 s.plan_inact

(** val set_plan : state -> plan -> state res **)

let set_plan s p =
  match p.pl_status with
  | SActive ->
    Ok
      (set (fun s0 -> s0.plan_act) (fun f ->
        let g = fun r -> f r.plan_act in
        (fun x -> { cfg = x.cfg; bank = x.bank; supply = x.supply; deposits =
        x.deposits; prov_act = x.prov_act; prov_inact = x.prov_inact;
        node_act = x.node_act; node_inact = x.node_inact; node_q = x.node_q;
        node_plan = x.node_plan; plan_count = x.plan_count; plan_act = 
        (g x); plan_inact = x.plan_inact; plan_prov = x.plan_prov;
        sub_count = x.sub_count; subs = x.subs; sub_q = x.sub_q; sub_acc =
        x.sub_acc; sub_node = x.sub_node; sub_plan = x.sub_plan; allocs =
        x.allocs; payouts = x.payouts; pay_q = x.pay_q; pay_acc = x.pay_acc;
        pay_node = x.pay_node; pay_acc_node = x.pay_acc_node; sess_count =
        x.sess_count; sessions = x.sessions; sess_q = x.sess_q; sess_acc =
        x.sess_acc; sess_node = x.sess_node; sess_sub = x.sess_sub;
        sess_alloc = x.sess_alloc; pars = x.pars; modified = x.modified;
        swaps = x.swaps; inflations = x.inflations; mint_max = x.mint_max;
        mint_min = x.mint_min; mint_rate = x.mint_rate; mint_inflation =
        x.mint_inflation; now = x.now; events = x.events })) (fun m ->
        insert0 (map_insert (gmap_partial_alter Coq_Z.eq_dec z_countable))
          p.pl_id p m) s)
  | SInactive ->
    Ok
      (set (fun s0 -> s0.plan_inact) (fun f ->
        let g = fun r -> f r.plan_inact in
        (fun x -> { cfg = x.cfg; bank = x.bank; supply = x.supply; deposits =
        x.deposits; prov_act = x.prov_act; prov_inact = x.prov_inact;
        node_act = x.node_act; node_inact = x.node_inact; node_q = x.node_q;
        node_plan = x.node_plan; plan_count = x.plan_count; plan_act =
        x.plan_act; plan_inact = (g x); plan_prov = x.plan_prov; sub_count =
        x.sub_count; subs = x.subs; sub_q = x.sub_q; sub_acc = x.sub_acc;
        sub_node = x.sub_node; sub_plan = x.sub_plan; allocs = x.allocs;
        payouts = x.payouts; pay_q = x.pay_q; pay_acc = x.pay_acc; pay_node =
        x.pay_node; pay_acc_node = x.pay_acc_node; sess_count = x.sess_count;
        sessions = x.sessions; sess_q = x.sess_q; sess_acc = x.sess_acc;
        sess_node = x.sess_node; sess_sub = x.sess_sub; sess_alloc =
        x.sess_alloc; pars = x.pars; modified = x.modified; swaps = x.swaps;
        inflations = x.inflations; mint_max = x.mint_max; mint_min =
        x.mint_min; mint_rate = x.mint_rate; mint_inflation =
        x.mint_inflation; now = x.now; events = x.events })) (fun m ->
        insert0 (map_insert (gmap_partial_alter Coq_Z.eq_dec z_countable))
          p.pl_id p m) s)
  | _ -> Panic

(** val bounds_ok :
    (denom, z) gmap -> (denom, z) gmap -> (denom, z) gmap -> bool **)

let bounds_ok prices maxp minp =
  (&&)
    (forallb (fun pat ->
      let (d, a) = pat in negb (Z.ltb a (amount_of prices d)))
      (coins_list maxp))
    (forallb (fun pat ->
      let (d, a) = pat in negb (Z.ltb (amount_of prices d) a))
      (coins_list minp))

(** val valid_gb_prices : state -> (denom, z) gmap -> bool **)

let valid_gb_prices s p =
  bounds_ok p s.pars.p_max_gb s.pars.p_min_gb

(** val valid_hr_prices : state -> (denom, z) gmap -> bool **)

let valid_hr_prices s p =
  bounds_ok p s.pars.p_max_hr s.pars.p_min_hr

(** val valid_sub_gb : state -> z -> bool **)

let valid_sub_gb s g =
  (&&) (Z.leb s.pars.p_min_sub_gb g) (Z.leb g s.pars.p_max_sub_gb)

(** val valid_sub_hr : state -> z -> bool **)

let valid_sub_hr s h =
  (&&) (Z.leb s.pars.p_min_sub_hr h) (Z.leb h s.pars.p_max_sub_hr)

(** val due_z : (time * z) gset -> time -> (time * z) list **)

let due_z q t0 =
  filter0 (fun _ -> list_filter) (fun x ->
    decide_rel Coq_Z.le_dec (fst x) t0)
    (sort_by cmp_tz
      (elements0
        (gset_elements (prod_eq_dec Coq_Z.eq_dec Coq_Z.eq_dec)
          (prod_countable Coq_Z.eq_dec z_countable Coq_Z.eq_dec z_countable))
        q))

(** val due_a : (time * addr) gset -> time -> (time * addr) list **)

let due_a q t0 =
  filter0 (fun _ -> list_filter) (fun x ->
    decide_rel Coq_Z.le_dec (fst x) t0)
    (sort_by cmp_ta
      (elements0
        (gset_elements (prod_eq_dec Coq_Z.eq_dec (list_eq_dec0 n_eq_dec))
          (prod_countable Coq_Z.eq_dec z_countable (list_eq_dec0 n_eq_dec)
            (list_countable n_eq_dec n_countable))) q))

(** val ids_for_z : (z * z) gset -> z -> z list **)

let ids_for_z ix k =
  sort_by Z.compare
    (mbind (Obj.magic (fun _ _ -> list_bind)) (fun e ->
      if bool_decide (decide_rel Coq_Z.eq_dec (fst e) k)
      then (snd e) :: []
      else [])
      (elements0
        (Obj.magic gset_elements (prod_eq_dec Coq_Z.eq_dec Coq_Z.eq_dec)
          (prod_countable Coq_Z.eq_dec z_countable Coq_Z.eq_dec z_countable))
        ix))

(** val ids_for_aa : ((addr * addr) * z) gset -> addr -> addr -> z list **)

let ids_for_aa ix k1 k2 =
  sort_by Z.compare
    (mbind (Obj.magic (fun _ _ -> list_bind)) (fun e ->
      if bool_decide
           (decide_rel
             (prod_eq_dec (list_eq_dec0 n_eq_dec) (list_eq_dec0 n_eq_dec))
             (fst e) (k1, k2))
      then (snd e) :: []
      else [])
      (elements0
        (Obj.magic gset_elements
          (prod_eq_dec
            (prod_eq_dec (list_eq_dec0 n_eq_dec) (list_eq_dec0 n_eq_dec))
            Coq_Z.eq_dec)
          (prod_countable
            (prod_eq_dec (list_eq_dec0 n_eq_dec) (list_eq_dec0 n_eq_dec))
            (prod_countable (list_eq_dec0 n_eq_dec)
              (list_countable n_eq_dec n_countable) (list_eq_dec0 n_eq_dec)
              (list_countable n_eq_dec n_countable)) Coq_Z.eq_dec z_countable))
        ix))

(** val ids_for_za : ((z * addr) * z) gset -> z -> addr -> z list **)

let ids_for_za ix k1 k2 =
  sort_by Z.compare
    (mbind (Obj.magic (fun _ _ -> list_bind)) (fun e ->
      if bool_decide
           (decide_rel (prod_eq_dec Coq_Z.eq_dec (list_eq_dec0 n_eq_dec))
             (fst e) (k1, k2))
      then (snd e) :: []
      else [])
      (elements0
        (Obj.magic gset_elements
          (prod_eq_dec (prod_eq_dec Coq_Z.eq_dec (list_eq_dec0 n_eq_dec))
            Coq_Z.eq_dec)
          (prod_countable (prod_eq_dec Coq_Z.eq_dec (list_eq_dec0 n_eq_dec))
            (prod_countable Coq_Z.eq_dec z_countable (list_eq_dec0 n_eq_dec)
              (list_countable n_eq_dec n_countable)) Coq_Z.eq_dec z_countable))
        ix))

(** val last_opt : 'a1 list -> 'a1 option **)

let last_opt =
  last

(** val allocs_for : state -> z -> allocation list **)

let allocs_for s id0 =
  map snd
    (sort_by (fun x y -> cmp_za (fst x) (fst y))
      (filter0 (fun _ -> list_filter) (fun x ->
        decide_rel Coq_Z.eq_dec (fst (fst x)) id0)
        (map_to_list
          (gmap_to_list (prod_eq_dec Coq_Z.eq_dec (list_eq_dec0 n_eq_dec))
            (prod_countable Coq_Z.eq_dec z_countable (list_eq_dec0 n_eq_dec)
              (list_countable n_eq_dec n_countable))) s.allocs)))

(** val all_nodes : state -> node list **)

let all_nodes s =
  app
    (map snd
      (sort_by (fun x y -> addr_cmp (fst x) (fst y))
        (map_to_list
          (gmap_to_list (list_eq_dec0 n_eq_dec)
            (list_countable n_eq_dec n_countable)) s.node_act)))
    (map snd
      (sort_by (fun x y -> addr_cmp (fst x) (fst y))
        (map_to_list
          (gmap_to_list (list_eq_dec0 n_eq_dec)
            (list_countable n_eq_dec n_countable)) s.node_inact)))

(** val slen : string -> z **)

let slen x =
  Z.of_nat (length0 x)

(** val is_empty : string -> bool **)

let is_empty x =
  Z.eqb (slen x) Z0

(** val coins_field_ok : coin list option -> bool **)

let coins_field_ok = function
| Some l -> (&&) (negb (bool_decide (list_eq_nil_dec l))) (coins_sorted l)
| None -> false

(** val coins_field_opt_ok : coin list option -> bool **)

let coins_field_opt_ok = function
| Some l -> (&&) (negb (bool_decide (list_eq_nil_dec l))) (coins_sorted l)
| None -> true

(** val denom_ok : denom -> bool **)

let denom_ok d =
  negb (N.eqb d N0)

(** val validate_basic : msg -> bool **)

let validate_basic = function
| MProvRegister (from, name, identity, website, description, website_ok) ->
  (&&)
    ((&&)
      ((&&)
        ((&&)
          ((&&) ((&&) (ta_valid RAcc from) (negb (is_empty name)))
            (Z.leb (slen name) (Zpos (XO (XO (XO (XO (XO (XO XH)))))))))
          (Z.leb (slen identity) (Zpos (XO (XO (XO (XO (XO (XO XH)))))))))
        (Z.leb (slen website) (Zpos (XO (XO (XO (XO (XO (XO XH)))))))))
      ((||) (is_empty website) website_ok))
    (Z.leb (slen description) (Zpos (XO (XO (XO (XO (XO (XO (XO (XO
      XH))))))))))
| MProvUpdate (from, name, identity, website, description, website_ok, st) ->
  (&&)
    ((&&)
      ((&&)
        ((&&)
          ((&&)
            ((&&) (ta_valid RProv from)
              (Z.leb (slen name) (Zpos (XO (XO (XO (XO (XO (XO XH)))))))))
            (Z.leb (slen identity) (Zpos (XO (XO (XO (XO (XO (XO XH)))))))))
          (Z.leb (slen website) (Zpos (XO (XO (XO (XO (XO (XO XH)))))))))
        ((||) (is_empty website) website_ok))
      (Z.leb (slen description) (Zpos (XO (XO (XO (XO (XO (XO (XO (XO
        XH)))))))))))
    (bool_decide
      (or_dec (decide_rel status_eq_dec st SUnspec)
        (or_dec (decide_rel status_eq_dec st SActive)
          (decide_rel status_eq_dec st SInactive))))
| MNodeRegister (from, gb, hr, url, url_ok) ->
  (&&)
    ((&&)
      ((&&)
        ((&&) ((&&) (ta_valid RAcc from) (coins_field_ok gb))
          (coins_field_ok hr)) (negb (is_empty url)))
      (Z.leb (slen url) (Zpos (XO (XO (XO (XO (XO (XO XH))))))))) url_ok
| MNodeUpdateDetails (from, gb, hr, url, url_ok) ->
  (&&)
    ((&&) ((&&) (ta_valid RNode from) (coins_field_opt_ok gb))
      (coins_field_opt_ok hr))
    ((||) (is_empty url)
      ((&&) (Z.leb (slen url) (Zpos (XO (XO (XO (XO (XO (XO XH)))))))) url_ok))
| MNodeUpdateStatus (from, st) ->
  (&&) (ta_valid RNode from)
    (bool_decide
      (or_dec (decide_rel status_eq_dec st SActive)
        (decide_rel status_eq_dec st SInactive)))
| MNodeSubscribe (from, nd, gigabytes, hours, dn) ->
  (&&)
    ((&&)
      ((&&)
        ((&&)
          ((&&) ((&&) (ta_valid RAcc from) (ta_valid RNode nd))
            (negb ((&&) (Z.eqb gigabytes Z0) (Z.eqb hours Z0))))
          (negb ((&&) (negb (Z.eqb gigabytes Z0)) (negb (Z.eqb hours Z0)))))
        (Z.leb Z0 gigabytes)) (Z.leb Z0 hours)) (denom_ok dn)
| MPlanCreate (from, duration, gigabytes, prices) ->
  (&&)
    ((&&) ((&&) (ta_valid RProv from) (Z.ltb Z0 duration))
      (Z.ltb Z0 gigabytes)) (coins_field_ok prices)
| MPlanUpdateStatus (from, id0, st) ->
  (&&) ((&&) (ta_valid RProv from) (negb (Z.eqb id0 Z0)))
    (bool_decide
      (or_dec (decide_rel status_eq_dec st SActive)
        (decide_rel status_eq_dec st SInactive)))
| MPlanLink (from, id0, nd) ->
  (&&) ((&&) (ta_valid RProv from) (negb (Z.eqb id0 Z0))) (ta_valid RNode nd)
| MPlanUnlink (from, id0, nd) ->
  (&&) ((&&) (ta_valid RProv from) (negb (Z.eqb id0 Z0))) (ta_valid RNode nd)
| MPlanSubscribe (from, id0, dn) ->
  (&&) ((&&) (ta_valid RAcc from) (negb (Z.eqb id0 Z0))) (denom_ok dn)
| MSubCancel (from, id0) -> (&&) (ta_valid RAcc from) (negb (Z.eqb id0 Z0))
| MSubAllocate (from, id0, to0, bytes) ->
  (&&)
    ((&&)
      ((&&) ((&&) (ta_valid RAcc from) (negb (Z.eqb id0 Z0)))
        (ta_valid RAcc to0)) (Z.leb Z0 bytes)) (Z.ltb bytes mAXINT)
| MSessStart (from, id0, nd) ->
  (&&) ((&&) (ta_valid RAcc from) (negb (Z.eqb id0 Z0))) (ta_valid RNode nd)
| MSessUpdate (from, id0, up, down, duration, sig_len, _) ->
  (&&)
    ((&&)
      ((&&)
        ((&&)
          ((&&)
            ((&&)
              ((&&) ((&&) (ta_valid RNode from) (negb (Z.eqb id0 Z0)))
                (Z.leb Z0 up)) (Z.ltb up mAXINT)) (Z.leb Z0 down))
          (Z.ltb down mAXINT)) (Z.ltb (Z.add up down) mAXINT))
      (Z.leb Z0 duration))
    (match sig_len with
     | Some n0 -> Z.eqb n0 (Zpos (XO (XO (XO (XO (XO (XO XH)))))))
     | None -> true)
| MSessEnd (from, id0, rating) ->
  (&&)
    ((&&) ((&&) (ta_valid RAcc from) (negb (Z.eqb id0 Z0))) (Z.leb Z0 rating))
    (Z.leb rating (Zpos (XO (XI (XO XH)))))
| MSwap (from, hash, receiver, amount) ->
  (&&)
    ((&&)
      ((&&) ((&&) (ta_valid RAcc from) (ta_valid RAcc receiver))
        (Z.eqb (Z.of_nat (length hash)) (Zpos (XO (XO (XO (XO (XO XH))))))))
      (Z.leb (Zpos (XO (XO (XI (XO (XO (XI XH))))))) amount))
    (Z.ltb amount mAXINT)

(** val h_prov_register :
    state -> taddr -> string -> string -> string -> string -> state res **)

let h_prov_register s from name identity website description =
  let a = from.ta_bytes in
  rbind (ensure (negb (has_provider s a))) (fun _ ->
    rbind (fund_pool s a s.pars.p_prov_deposit) (fun s1 ->
      let p = { pv_addr = a; pv_name = name; pv_identity = identity;
        pv_website = website; pv_description = description; pv_status =
        SInactive; pv_status_at = s.now }
      in
      rbind (set_provider s1 p) (fun s2 -> Ok
        (emit
          (ev (String ((Ascii (false, false, false, false, true, true, true,
            false)), (String ((Ascii (false, true, false, false, true, true,
            true, false)), (String ((Ascii (true, true, true, true, false,
            true, true, false)), (String ((Ascii (false, true, true, false,
            true, true, true, false)), (String ((Ascii (true, false, false,
            true, false, true, true, false)), (String ((Ascii (false, false,
            true, false, false, true, true, false)), (String ((Ascii (true,
            false, true, false, false, true, true, false)), (String ((Ascii
            (false, true, false, false, true, true, true, false)), (String
            ((Ascii (false, true, true, true, false, true, false, false)),
            (String ((Ascii (true, false, true, false, false, false, true,
            false)), (String ((Ascii (false, true, true, false, true, true,
            true, false)), (String ((Ascii (true, false, true, false, false,
            true, true, false)), (String ((Ascii (false, true, true, true,
            false, true, true, false)), (String ((Ascii (false, false, true,
            false, true, true, true, false)), (String ((Ascii (false, true,
            false, false, true, false, true, false)), (String ((Ascii (true,
            false, true, false, false, true, true, false)), (String ((Ascii
            (true, true, true, false, false, true, true, false)), (String
            ((Ascii (true, false, false, true, false, true, true, false)),
            (String ((Ascii (true, true, false, false, true, true, true,
            false)), (String ((Ascii (false, false, true, false, true, true,
            true, false)), (String ((Ascii (true, false, true, false, false,
            true, true, false)), (String ((Ascii (false, true, false, false,
            true, true, true, false)),
            EmptyString)))))))))))))))))))))))))))))))))))))))))))) ((VT
            (canon RProv a)) :: [])) s2))))

(** val h_prov_update :
    state -> taddr -> string -> string -> string -> string -> status -> state
    res **)

let h_prov_update s from name identity website description st =
  let a = from.ta_bytes in
  (match get_provider s a with
   | Some p ->
     let p1 =
       set (fun p0 -> p0.pv_description) (fun f ->
         let s0 = fun r -> f r.pv_description in
         (fun x -> { pv_addr = x.pv_addr; pv_name = x.pv_name; pv_identity =
         x.pv_identity; pv_website = x.pv_website; pv_description = (s0 x);
         pv_status = x.pv_status; pv_status_at = x.pv_status_at })) (fun _ ->
         description)
         (set (fun p0 -> p0.pv_website) (fun f ->
           let s0 = fun r -> f r.pv_website in
           (fun x -> { pv_addr = x.pv_addr; pv_name = x.pv_name;
           pv_identity = x.pv_identity; pv_website = (s0 x); pv_description =
           x.pv_description; pv_status = x.pv_status; pv_status_at =
           x.pv_status_at })) (fun _ -> website)
           (set (fun p0 -> p0.pv_identity) (fun f ->
             let s0 = fun r -> f r.pv_identity in
             (fun x -> { pv_addr = x.pv_addr; pv_name = x.pv_name;
             pv_identity = (s0 x); pv_website = x.pv_website;
             pv_description = x.pv_description; pv_status = x.pv_status;
             pv_status_at = x.pv_status_at })) (fun _ -> identity)
             (set (fun p0 -> p0.pv_name) (fun f ->
               let s0 = fun r -> f r.pv_name in
               (fun x -> { pv_addr = x.pv_addr; pv_name = (s0 x);
               pv_identity = x.pv_identity; pv_website = x.pv_website;
               pv_description = x.pv_description; pv_status = x.pv_status;
               pv_status_at = x.pv_status_at })) (fun _ ->
               if is_empty name then p.pv_name else name) p)))
     in
     let (s1, p2) =
       if bool_decide (decide_rel status_eq_dec st SUnspec)
       then (s, p1)
       else let s1 =
              if bool_decide
                   (and_dec (decide_rel status_eq_dec p.pv_status SActive)
                     (decide_rel status_eq_dec st SInactive))
              then set (fun s0 -> s0.prov_act) (fun f ->
                     let g = fun r -> f r.prov_act in
                     (fun x -> { cfg = x.cfg; bank = x.bank; supply =
                     x.supply; deposits = x.deposits; prov_act = (g x);
                     prov_inact = x.prov_inact; node_act = x.node_act;
                     node_inact = x.node_inact; node_q = x.node_q;
                     node_plan = x.node_plan; plan_count = x.plan_count;
                     plan_act = x.plan_act; plan_inact = x.plan_inact;
                     plan_prov = x.plan_prov; sub_count = x.sub_count; subs =
                     x.subs; sub_q = x.sub_q; sub_acc = x.sub_acc; sub_node =
                     x.sub_node; sub_plan = x.sub_plan; allocs = x.allocs;
                     payouts = x.payouts; pay_q = x.pay_q; pay_acc =
                     x.pay_acc; pay_node = x.pay_node; pay_acc_node =
                     x.pay_acc_node; sess_count = x.sess_count; sessions =
                     x.sessions; sess_q = x.sess_q; sess_acc = x.sess_acc;
                     sess_node = x.sess_node; sess_sub = x.sess_sub;
                     sess_alloc = x.sess_alloc; pars = x.pars; modified =
                     x.modified; swaps = x.swaps; inflations = x.inflations;
                     mint_max = x.mint_max; mint_min = x.mint_min;
                     mint_rate = x.mint_rate; mint_inflation =
                     x.mint_inflation; now = x.now; events = x.events }))
                     (fun m ->
                     delete0
                       (map_delete
                         (gmap_partial_alter (list_eq_dec0 n_eq_dec)
                           (list_countable n_eq_dec n_countable))) a m) s
              else s
            in
            let s2 =
              if bool_decide
                   (and_dec (decide_rel status_eq_dec p.pv_status SInactive)
                     (decide_rel status_eq_dec st SActive))
              then set (fun s0 -> s0.prov_inact) (fun f ->
                     let g = fun r -> f r.prov_inact in
                     (fun x -> { cfg = x.cfg; bank = x.bank; supply =
                     x.supply; deposits = x.deposits; prov_act = x.prov_act;
                     prov_inact = (g x); node_act = x.node_act; node_inact =
                     x.node_inact; node_q = x.node_q; node_plan =
                     x.node_plan; plan_count = x.plan_count; plan_act =
                     x.plan_act; plan_inact = x.plan_inact; plan_prov =
                     x.plan_prov; sub_count = x.sub_count; subs = x.subs;
                     sub_q = x.sub_q; sub_acc = x.sub_acc; sub_node =
                     x.sub_node; sub_plan = x.sub_plan; allocs = x.allocs;
                     payouts = x.payouts; pay_q = x.pay_q; pay_acc =
                     x.pay_acc; pay_node = x.pay_node; pay_acc_node =
                     x.pay_acc_node; sess_count = x.sess_count; sessions =
                     x.sessions; sess_q = x.sess_q; sess_acc = x.sess_acc;
                     sess_node = x.sess_node; sess_sub = x.sess_sub;
                     sess_alloc = x.sess_alloc; pars = x.pars; modified =
                     x.modified; swaps = x.swaps; inflations = x.inflations;
                     mint_max = x.mint_max; mint_min = x.mint_min;
                     mint_rate = x.mint_rate; mint_inflation =
                     x.mint_inflation; now = x.now; events = x.events }))
                     (fun m ->
                     delete0
                       (map_delete
                         (gmap_partial_alter (list_eq_dec0 n_eq_dec)
                           (list_countable n_eq_dec n_countable))) a m) s1
              else s1
            in
            (s2,
            (set (fun p0 -> p0.pv_status_at) (fun f ->
              let t0 = fun r -> f r.pv_status_at in
              (fun x -> { pv_addr = x.pv_addr; pv_name = x.pv_name;
              pv_identity = x.pv_identity; pv_website = x.pv_website;
              pv_description = x.pv_description; pv_status = x.pv_status;
              pv_status_at = (t0 x) })) (fun _ -> s.now)
              (set (fun p0 -> p0.pv_status) (fun f ->
                let s0 = fun r -> f r.pv_status in
                (fun x -> { pv_addr = x.pv_addr; pv_name = x.pv_name;
                pv_identity = x.pv_identity; pv_website = x.pv_website;
                pv_description = x.pv_description; pv_status = (s0 x);
                pv_status_at = x.pv_status_at })) (fun _ -> st) p1)))
     in
     rbind (set_provider s1 p2) (fun s2 -> Ok
       (emit
         (ev (String ((Ascii (false, false, false, false, true, true, true,
           false)), (String ((Ascii (false, true, false, false, true, true,
           true, false)), (String ((Ascii (true, true, true, true, false,
           true, true, false)), (String ((Ascii (false, true, true, false,
           true, true, true, false)), (String ((Ascii (true, false, false,
           true, false, true, true, false)), (String ((Ascii (false, false,
           true, false, false, true, true, false)), (String ((Ascii (true,
           false, true, false, false, true, true, false)), (String ((Ascii
           (false, true, false, false, true, true, true, false)), (String
           ((Ascii (false, true, true, true, false, true, false, false)),
           (String ((Ascii (true, false, true, false, false, false, true,
           false)), (String ((Ascii (false, true, true, false, true, true,
           true, false)), (String ((Ascii (true, false, true, false, false,
           true, true, false)), (String ((Ascii (false, true, true, true,
           false, true, true, false)), (String ((Ascii (false, false, true,
           false, true, true, true, false)), (String ((Ascii (true, false,
           true, false, true, false, true, false)), (String ((Ascii (false,
           false, false, false, true, true, true, false)), (String ((Ascii
           (false, false, true, false, false, true, true, false)), (String
           ((Ascii (true, false, false, false, false, true, true, false)),
           (String ((Ascii (false, false, true, false, true, true, true,
           false)), (String ((Ascii (true, false, true, false, false, true,
           true, false)), EmptyString))))))))))))))))))))))))))))))))))))))))
           ((VT (canon RProv a)) :: [])) s2))
   | None -> Err)

(** val h_node_register :
    state -> taddr -> coin list -> coin list -> string -> state res **)

let h_node_register s from gb hr url =
  rbind (ensure (valid_gb_prices s (coins_of gb))) (fun _ ->
    rbind (ensure (valid_hr_prices s (coins_of hr))) (fun _ ->
      let a = from.ta_bytes in
      rbind (ensure (negb (has_node s a))) (fun _ ->
        rbind (fund_pool s a s.pars.p_node_deposit) (fun s1 ->
          let n0 = { nd_addr = a; nd_gb_prices = (coins_of gb);
            nd_hr_prices = (coins_of hr); nd_url = url; nd_inactive_at =
            tzero; nd_status = SInactive; nd_status_at = s.now }
          in
          rbind (set_node s1 n0) (fun s2 -> Ok
            (emit
              (ev (String ((Ascii (false, true, true, true, false, true,
                true, false)), (String ((Ascii (true, true, true, true,
                false, true, true, false)), (String ((Ascii (false, false,
                true, false, false, true, true, false)), (String ((Ascii
                (true, false, true, false, false, true, true, false)),
                (String ((Ascii (false, true, true, true, false, true, false,
                false)), (String ((Ascii (true, false, true, false, false,
                false, true, false)), (String ((Ascii (false, true, true,
                false, true, true, true, false)), (String ((Ascii (true,
                false, true, false, false, true, true, false)), (String
                ((Ascii (false, true, true, true, false, true, true, false)),
                (String ((Ascii (false, false, true, false, true, true, true,
                false)), (String ((Ascii (false, true, false, false, true,
                false, true, false)), (String ((Ascii (true, false, true,
                false, false, true, true, false)), (String ((Ascii (true,
                true, true, false, false, true, true, false)), (String
                ((Ascii (true, false, false, true, false, true, true,
                false)), (String ((Ascii (true, true, false, false, true,
                true, true, false)), (String ((Ascii (false, false, true,
                false, true, true, true, false)), (String ((Ascii (true,
                false, true, false, false, true, true, false)), (String
                ((Ascii (false, true, false, false, true, true, true,
                false)), EmptyString)))))))))))))))))))))))))))))))))))) ((VT
                (canon RNode a)) :: [])) s2))))))

(** val h_node_update_details :
    state -> taddr -> coin list option -> coin list option -> string -> state
    res **)

let h_node_update_details s from gb hr url =
  rbind
    (ensure
      (match gb with
       | Some l -> valid_gb_prices s (coins_of l)
       | None -> true)) (fun _ ->
    rbind
      (ensure
        (match hr with
         | Some l -> valid_hr_prices s (coins_of l)
         | None -> true)) (fun _ ->
      let a = from.ta_bytes in
      (match get_node s a with
       | Some n0 ->
         let n1 =
           set (fun n1 -> n1.nd_url) (fun f ->
             let s0 = fun r -> f r.nd_url in
             (fun x -> { nd_addr = x.nd_addr; nd_gb_prices = x.nd_gb_prices;
             nd_hr_prices = x.nd_hr_prices; nd_url = (s0 x); nd_inactive_at =
             x.nd_inactive_at; nd_status = x.nd_status; nd_status_at =
             x.nd_status_at })) (fun _ ->
             if is_empty url then n0.nd_url else url)
             (set (fun n1 -> n1.nd_hr_prices) (fun f ->
               let g = fun r -> f r.nd_hr_prices in
               (fun x -> { nd_addr = x.nd_addr; nd_gb_prices =
               x.nd_gb_prices; nd_hr_prices = (g x); nd_url = x.nd_url;
               nd_inactive_at = x.nd_inactive_at; nd_status = x.nd_status;
               nd_status_at = x.nd_status_at })) (fun _ ->
               match hr with
               | Some l -> coins_of l
               | None -> n0.nd_hr_prices)
               (set (fun n1 -> n1.nd_gb_prices) (fun f ->
                 let g = fun r -> f r.nd_gb_prices in
                 (fun x -> { nd_addr = x.nd_addr; nd_gb_prices = (g x);
                 nd_hr_prices = x.nd_hr_prices; nd_url = x.nd_url;
                 nd_inactive_at = x.nd_inactive_at; nd_status = x.nd_status;
                 nd_status_at = x.nd_status_at })) (fun _ ->
                 match gb with
                 | Some l -> coins_of l
                 | None -> n0.nd_gb_prices) n0))
         in
         rbind (set_node s n1) (fun s1 -> Ok
           (emit
             (ev (String ((Ascii (false, true, true, true, false, true, true,
               false)), (String ((Ascii (true, true, true, true, false, true,
               true, false)), (String ((Ascii (false, false, true, false,
               false, true, true, false)), (String ((Ascii (true, false,
               true, false, false, true, true, false)), (String ((Ascii
               (false, true, true, true, false, true, false, false)), (String
               ((Ascii (true, false, true, false, false, false, true,
               false)), (String ((Ascii (false, true, true, false, true,
               true, true, false)), (String ((Ascii (true, false, true,
               false, false, true, true, false)), (String ((Ascii (false,
               true, true, true, false, true, true, false)), (String ((Ascii
               (false, false, true, false, true, true, true, false)), (String
               ((Ascii (true, false, true, false, true, false, true, false)),
               (String ((Ascii (false, false, false, false, true, true, true,
               false)), (String ((Ascii (false, false, true, false, false,
               true, true, false)), (String ((Ascii (true, false, false,
               false, false, true, true, false)), (String ((Ascii (false,
               false, true, false, true, true, true, false)), (String ((Ascii
               (true, false, true, false, false, true, true, false)), (String
               ((Ascii (false, false, true, false, false, false, true,
               false)), (String ((Ascii (true, false, true, false, false,
               true, true, false)), (String ((Ascii (false, false, true,
               false, true, true, true, false)), (String ((Ascii (true,
               false, false, false, false, true, true, false)), (String
               ((Ascii (true, false, false, true, false, true, true, false)),
               (String ((Ascii (false, false, true, true, false, true, true,
               false)), (String ((Ascii (true, true, false, false, true,
               true, true, false)),
               EmptyString)))))))))))))))))))))))))))))))))))))))))))))) ((VT
               (canon RNode a)) :: [])) s1))
       | None -> Err)))

(** val h_node_update_status : state -> taddr -> status -> state res **)

let h_node_update_status s from st =
  let a = from.ta_bytes in
  (match get_node s a with
   | Some n0 ->
     let s1 =
       if bool_decide (decide_rel status_eq_dec n0.nd_status SActive)
       then let s' =
              set (fun s0 -> s0.node_q) (fun f ->
                let g = fun r -> f r.node_q in
                (fun x -> { cfg = x.cfg; bank = x.bank; supply = x.supply;
                deposits = x.deposits; prov_act = x.prov_act; prov_inact =
                x.prov_inact; node_act = x.node_act; node_inact =
                x.node_inact; node_q = (g x); node_plan = x.node_plan;
                plan_count = x.plan_count; plan_act = x.plan_act;
                plan_inact = x.plan_inact; plan_prov = x.plan_prov;
                sub_count = x.sub_count; subs = x.subs; sub_q = x.sub_q;
                sub_acc = x.sub_acc; sub_node = x.sub_node; sub_plan =
                x.sub_plan; allocs = x.allocs; payouts = x.payouts; pay_q =
                x.pay_q; pay_acc = x.pay_acc; pay_node = x.pay_node;
                pay_acc_node = x.pay_acc_node; sess_count = x.sess_count;
                sessions = x.sessions; sess_q = x.sess_q; sess_acc =
                x.sess_acc; sess_node = x.sess_node; sess_sub = x.sess_sub;
                sess_alloc = x.sess_alloc; pars = x.pars; modified =
                x.modified; swaps = x.swaps; inflations = x.inflations;
                mint_max = x.mint_max; mint_min = x.mint_min; mint_rate =
                x.mint_rate; mint_inflation = x.mint_inflation; now = x.now;
                events = x.events })) (fun q ->
                difference0
                  (gset_difference
                    (prod_eq_dec Coq_Z.eq_dec (list_eq_dec0 n_eq_dec))
                    (prod_countable Coq_Z.eq_dec z_countable
                      (list_eq_dec0 n_eq_dec)
                      (list_countable n_eq_dec n_countable))) q
                  (singleton0
                    (gset_singleton
                      (prod_eq_dec Coq_Z.eq_dec (list_eq_dec0 n_eq_dec))
                      (prod_countable Coq_Z.eq_dec z_countable
                        (list_eq_dec0 n_eq_dec)
                        (list_countable n_eq_dec n_countable)))
                    (n0.nd_inactive_at, a))) s
            in
            if bool_decide (decide_rel status_eq_dec st SInactive)
            then set (fun s0 -> s0.node_act) (fun f ->
                   let g = fun r -> f r.node_act in
                   (fun x -> { cfg = x.cfg; bank = x.bank; supply = x.supply;
                   deposits = x.deposits; prov_act = x.prov_act; prov_inact =
                   x.prov_inact; node_act = (g x); node_inact = x.node_inact;
                   node_q = x.node_q; node_plan = x.node_plan; plan_count =
                   x.plan_count; plan_act = x.plan_act; plan_inact =
                   x.plan_inact; plan_prov = x.plan_prov; sub_count =
                   x.sub_count; subs = x.subs; sub_q = x.sub_q; sub_acc =
                   x.sub_acc; sub_node = x.sub_node; sub_plan = x.sub_plan;
                   allocs = x.allocs; payouts = x.payouts; pay_q = x.pay_q;
                   pay_acc = x.pay_acc; pay_node = x.pay_node; pay_acc_node =
                   x.pay_acc_node; sess_count = x.sess_count; sessions =
                   x.sessions; sess_q = x.sess_q; sess_acc = x.sess_acc;
                   sess_node = x.sess_node; sess_sub = x.sess_sub;
                   sess_alloc = x.sess_alloc; pars = x.pars; modified =
                   x.modified; swaps = x.swaps; inflations = x.inflations;
                   mint_max = x.mint_max; mint_min = x.mint_min; mint_rate =
                   x.mint_rate; mint_inflation = x.mint_inflation; now =
                   x.now; events = x.events })) (fun m ->
                   delete0
                     (map_delete
                       (gmap_partial_alter (list_eq_dec0 n_eq_dec)
                         (list_countable n_eq_dec n_countable))) a m) s'
            else s'
       else s
     in
     let s2 =
       if bool_decide
            (and_dec (decide_rel status_eq_dec n0.nd_status SInactive)
              (decide_rel status_eq_dec st SActive))
       then set (fun s0 -> s0.node_inact) (fun f ->
              let g = fun r -> f r.node_inact in
              (fun x -> { cfg = x.cfg; bank = x.bank; supply = x.supply;
              deposits = x.deposits; prov_act = x.prov_act; prov_inact =
              x.prov_inact; node_act = x.node_act; node_inact = (g x);
              node_q = x.node_q; node_plan = x.node_plan; plan_count =
              x.plan_count; plan_act = x.plan_act; plan_inact = x.plan_inact;
              plan_prov = x.plan_prov; sub_count = x.sub_count; subs =
              x.subs; sub_q = x.sub_q; sub_acc = x.sub_acc; sub_node =
              x.sub_node; sub_plan = x.sub_plan; allocs = x.allocs; payouts =
              x.payouts; pay_q = x.pay_q; pay_acc = x.pay_acc; pay_node =
              x.pay_node; pay_acc_node = x.pay_acc_node; sess_count =
              x.sess_count; sessions = x.sessions; sess_q = x.sess_q;
              sess_acc = x.sess_acc; sess_node = x.sess_node; sess_sub =
              x.sess_sub; sess_alloc = x.sess_alloc; pars = x.pars;
              modified = x.modified; swaps = x.swaps; inflations =
              x.inflations; mint_max = x.mint_max; mint_min = x.mint_min;
              mint_rate = x.mint_rate; mint_inflation = x.mint_inflation;
              now = x.now; events = x.events })) (fun m ->
              delete0
                (map_delete
                  (gmap_partial_alter (list_eq_dec0 n_eq_dec)
                    (list_countable n_eq_dec n_countable))) a m) s1
       else s1
     in
     let (s3, n1) =
       if bool_decide (decide_rel status_eq_dec st SActive)
       then let t0 = Z.add s.now s.pars.p_node_active in
            ((set (fun s0 -> s0.node_q) (fun f ->
               let g = fun r -> f r.node_q in
               (fun x -> { cfg = x.cfg; bank = x.bank; supply = x.supply;
               deposits = x.deposits; prov_act = x.prov_act; prov_inact =
               x.prov_inact; node_act = x.node_act; node_inact =
               x.node_inact; node_q = (g x); node_plan = x.node_plan;
               plan_count = x.plan_count; plan_act = x.plan_act; plan_inact =
               x.plan_inact; plan_prov = x.plan_prov; sub_count =
               x.sub_count; subs = x.subs; sub_q = x.sub_q; sub_acc =
               x.sub_acc; sub_node = x.sub_node; sub_plan = x.sub_plan;
               allocs = x.allocs; payouts = x.payouts; pay_q = x.pay_q;
               pay_acc = x.pay_acc; pay_node = x.pay_node; pay_acc_node =
               x.pay_acc_node; sess_count = x.sess_count; sessions =
               x.sessions; sess_q = x.sess_q; sess_acc = x.sess_acc;
               sess_node = x.sess_node; sess_sub = x.sess_sub; sess_alloc =
               x.sess_alloc; pars = x.pars; modified = x.modified; swaps =
               x.swaps; inflations = x.inflations; mint_max = x.mint_max;
               mint_min = x.mint_min; mint_rate = x.mint_rate;
               mint_inflation = x.mint_inflation; now = x.now; events =
               x.events })) (fun q ->
               union0
                 (gset_union
                   (prod_eq_dec Coq_Z.eq_dec (list_eq_dec0 n_eq_dec))
                   (prod_countable Coq_Z.eq_dec z_countable
                     (list_eq_dec0 n_eq_dec)
                     (list_countable n_eq_dec n_countable))) q
                 (singleton0
                   (gset_singleton
                     (prod_eq_dec Coq_Z.eq_dec (list_eq_dec0 n_eq_dec))
                     (prod_countable Coq_Z.eq_dec z_countable
                       (list_eq_dec0 n_eq_dec)
                       (list_countable n_eq_dec n_countable))) (t0, a))) s2),
            (set (fun n1 -> n1.nd_inactive_at) (fun f ->
              let t1 = fun r -> f r.nd_inactive_at in
              (fun x -> { nd_addr = x.nd_addr; nd_gb_prices = x.nd_gb_prices;
              nd_hr_prices = x.nd_hr_prices; nd_url = x.nd_url;
              nd_inactive_at = (t1 x); nd_status = x.nd_status;
              nd_status_at = x.nd_status_at })) (fun _ -> t0) n0))
       else (s2, n0)
     in
     let n2 =
       if bool_decide (decide_rel status_eq_dec st SInactive)
       then set (fun n2 -> n2.nd_inactive_at) (fun f ->
              let t0 = fun r -> f r.nd_inactive_at in
              (fun x -> { nd_addr = x.nd_addr; nd_gb_prices = x.nd_gb_prices;
              nd_hr_prices = x.nd_hr_prices; nd_url = x.nd_url;
              nd_inactive_at = (t0 x); nd_status = x.nd_status;
              nd_status_at = x.nd_status_at })) (fun _ -> tzero) n1
       else n1
     in
     let n3 =
       set (fun n3 -> n3.nd_status_at) (fun f ->
         let t0 = fun r -> f r.nd_status_at in
         (fun x -> { nd_addr = x.nd_addr; nd_gb_prices = x.nd_gb_prices;
         nd_hr_prices = x.nd_hr_prices; nd_url = x.nd_url; nd_inactive_at =
         x.nd_inactive_at; nd_status = x.nd_status; nd_status_at = (t0 x) }))
         (fun _ -> s.now)
         (set (fun n3 -> n3.nd_status) (fun f ->
           let s0 = fun r -> f r.nd_status in
           (fun x -> { nd_addr = x.nd_addr; nd_gb_prices = x.nd_gb_prices;
           nd_hr_prices = x.nd_hr_prices; nd_url = x.nd_url; nd_inactive_at =
           x.nd_inactive_at; nd_status = (s0 x); nd_status_at =
           x.nd_status_at })) (fun _ -> st) n2)
     in
     rbind (set_node s3 n3) (fun s4 -> Ok
       (emit
         (ev (String ((Ascii (false, true, true, true, false, true, true,
           false)), (String ((Ascii (true, true, true, true, false, true,
           true, false)), (String ((Ascii (false, false, true, false, false,
           true, true, false)), (String ((Ascii (true, false, true, false,
           false, true, true, false)), (String ((Ascii (false, true, true,
           true, false, true, false, false)), (String ((Ascii (true, false,
           true, false, false, false, true, false)), (String ((Ascii (false,
           true, true, false, true, true, true, false)), (String ((Ascii
           (true, false, true, false, false, true, true, false)), (String
           ((Ascii (false, true, true, true, false, true, true, false)),
           (String ((Ascii (false, false, true, false, true, true, true,
           false)), (String ((Ascii (true, false, true, false, true, false,
           true, false)), (String ((Ascii (false, false, false, false, true,
           true, true, false)), (String ((Ascii (false, false, true, false,
           false, true, true, false)), (String ((Ascii (true, false, false,
           false, false, true, true, false)), (String ((Ascii (false, false,
           true, false, true, true, true, false)), (String ((Ascii (true,
           false, true, false, false, true, true, false)), (String ((Ascii
           (true, true, false, false, true, false, true, false)), (String
           ((Ascii (false, false, true, false, true, true, true, false)),
           (String ((Ascii (true, false, false, false, false, true, true,
           false)), (String ((Ascii (false, false, true, false, true, true,
           true, false)), (String ((Ascii (true, false, true, false, true,
           true, true, false)), (String ((Ascii (true, true, false, false,
           true, true, true, false)),
           EmptyString)))))))))))))))))))))))))))))))))))))))))))) ((VS
           st) :: ((VT (canon RNode a)) :: []))) s4))
   | None -> Err)

(** val create_sub_for_node :
    state -> addr -> addr -> z -> z -> denom -> (state * z) res **)

let create_sub_for_node s acc nd gigabytes hours dn =
  match get_node s nd with
  | Some n0 ->
    rbind
      (ensure (bool_decide (decide_rel status_eq_dec n0.nd_status SActive)))
      (fun _ ->
      let id0 = Z.add s.sub_count (Zpos XH) in
      rbind
        (if negb (Z.eqb gigabytes Z0)
         then (match lookup0 (gmap_lookup n_eq_dec n_countable) dn
                       n0.nd_gb_prices with
               | Some price ->
                 rbind (int_mul gB gigabytes) (fun bytes ->
                   rbind (amount_for_bytes price bytes) (fun a ->
                     rbind (new_coin dn a) (fun c -> Ok
                       ((Z.add s.now
                          (Z.mul (Zpos (XO (XI (XO (XI (XI (XO XH))))))) dAY)),
                       c))))
               | None -> Err)
         else Ok (tzero, (N0, Z0))) (fun x ->
        let (inact1, dep1) = x in
        rbind
          (if negb (Z.eqb hours Z0)
           then (match lookup0 (gmap_lookup n_eq_dec n_countable) dn
                         n0.nd_hr_prices with
                 | Some price ->
                   rbind (int_mul price hours) (fun a ->
                     rbind (new_coin dn a) (fun c -> Ok
                       ((Z.add s.now (Z.mul hours hOUR)), c)))
                 | None -> Err)
           else Ok (inact1, dep1)) (fun x0 ->
          let (inact2, dep2) = x0 in
          rbind (z_dep_add s acc dep2) (fun s1 ->
            let sb = { sb_id = id0; sb_addr = acc; sb_inactive_at = inact2;
              sb_status = SActive; sb_status_at = s.now; sb_kind = (KNode
              (nd, gigabytes, hours, dep2)) }
            in
            let s2 =
              set (fun s0 -> s0.sub_q) (fun f ->
                let g = fun r -> f r.sub_q in
                (fun x1 -> { cfg = x1.cfg; bank = x1.bank; supply =
                x1.supply; deposits = x1.deposits; prov_act = x1.prov_act;
                prov_inact = x1.prov_inact; node_act = x1.node_act;
                node_inact = x1.node_inact; node_q = x1.node_q; node_plan =
                x1.node_plan; plan_count = x1.plan_count; plan_act =
                x1.plan_act; plan_inact = x1.plan_inact; plan_prov =
                x1.plan_prov; sub_count = x1.sub_count; subs = x1.subs;
                sub_q = (g x1); sub_acc = x1.sub_acc; sub_node = x1.sub_node;
                sub_plan = x1.sub_plan; allocs = x1.allocs; payouts =
                x1.payouts; pay_q = x1.pay_q; pay_acc = x1.pay_acc;
                pay_node = x1.pay_node; pay_acc_node = x1.pay_acc_node;
                sess_count = x1.sess_count; sessions = x1.sessions; sess_q =
                x1.sess_q; sess_acc = x1.sess_acc; sess_node = x1.sess_node;
                sess_sub = x1.sess_sub; sess_alloc = x1.sess_alloc; pars =
                x1.pars; modified = x1.modified; swaps = x1.swaps;
                inflations = x1.inflations; mint_max = x1.mint_max;
                mint_min = x1.mint_min; mint_rate = x1.mint_rate;
                mint_inflation = x1.mint_inflation; now = x1.now; events =
                x1.events })) (fun x1 ->
                union0
                  (gset_union (prod_eq_dec Coq_Z.eq_dec Coq_Z.eq_dec)
                    (prod_countable Coq_Z.eq_dec z_countable Coq_Z.eq_dec
                      z_countable)) x1
                  (singleton0
                    (gset_singleton (prod_eq_dec Coq_Z.eq_dec Coq_Z.eq_dec)
                      (prod_countable Coq_Z.eq_dec z_countable Coq_Z.eq_dec
                        z_countable)) (inact2, id0)))
                (set (fun s0 -> s0.sub_node) (fun f ->
                  let g = fun r -> f r.sub_node in
                  (fun x1 -> { cfg = x1.cfg; bank = x1.bank; supply =
                  x1.supply; deposits = x1.deposits; prov_act = x1.prov_act;
                  prov_inact = x1.prov_inact; node_act = x1.node_act;
                  node_inact = x1.node_inact; node_q = x1.node_q; node_plan =
                  x1.node_plan; plan_count = x1.plan_count; plan_act =
                  x1.plan_act; plan_inact = x1.plan_inact; plan_prov =
                  x1.plan_prov; sub_count = x1.sub_count; subs = x1.subs;
                  sub_q = x1.sub_q; sub_acc = x1.sub_acc; sub_node = 
                  (g x1); sub_plan = x1.sub_plan; allocs = x1.allocs;
                  payouts = x1.payouts; pay_q = x1.pay_q; pay_acc =
                  x1.pay_acc; pay_node = x1.pay_node; pay_acc_node =
                  x1.pay_acc_node; sess_count = x1.sess_count; sessions =
                  x1.sessions; sess_q = x1.sess_q; sess_acc = x1.sess_acc;
                  sess_node = x1.sess_node; sess_sub = x1.sess_sub;
                  sess_alloc = x1.sess_alloc; pars = x1.pars; modified =
                  x1.modified; swaps = x1.swaps; inflations = x1.inflations;
                  mint_max = x1.mint_max; mint_min = x1.mint_min; mint_rate =
                  x1.mint_rate; mint_inflation = x1.mint_inflation; now =
                  x1.now; events = x1.events })) (fun x1 ->
                  union0
                    (gset_union
                      (prod_eq_dec (list_eq_dec0 n_eq_dec) Coq_Z.eq_dec)
                      (prod_countable (list_eq_dec0 n_eq_dec)
                        (list_countable n_eq_dec n_countable) Coq_Z.eq_dec
                        z_countable)) x1
                    (singleton0
                      (gset_singleton
                        (prod_eq_dec (list_eq_dec0 n_eq_dec) Coq_Z.eq_dec)
                        (prod_countable (list_eq_dec0 n_eq_dec)
                          (list_countable n_eq_dec n_countable) Coq_Z.eq_dec
                          z_countable)) (nd, id0)))
                  (set (fun s0 -> s0.sub_acc) (fun f ->
                    let g = fun r -> f r.sub_acc in
                    (fun x1 -> { cfg = x1.cfg; bank = x1.bank; supply =
                    x1.supply; deposits = x1.deposits; prov_act =
                    x1.prov_act; prov_inact = x1.prov_inact; node_act =
                    x1.node_act; node_inact = x1.node_inact; node_q =
                    x1.node_q; node_plan = x1.node_plan; plan_count =
                    x1.plan_count; plan_act = x1.plan_act; plan_inact =
                    x1.plan_inact; plan_prov = x1.plan_prov; sub_count =
                    x1.sub_count; subs = x1.subs; sub_q = x1.sub_q; sub_acc =
                    (g x1); sub_node = x1.sub_node; sub_plan = x1.sub_plan;
                    allocs = x1.allocs; payouts = x1.payouts; pay_q =
                    x1.pay_q; pay_acc = x1.pay_acc; pay_node = x1.pay_node;
                    pay_acc_node = x1.pay_acc_node; sess_count =
                    x1.sess_count; sessions = x1.sessions; sess_q =
                    x1.sess_q; sess_acc = x1.sess_acc; sess_node =
                    x1.sess_node; sess_sub = x1.sess_sub; sess_alloc =
                    x1.sess_alloc; pars = x1.pars; modified = x1.modified;
                    swaps = x1.swaps; inflations = x1.inflations; mint_max =
                    x1.mint_max; mint_min = x1.mint_min; mint_rate =
                    x1.mint_rate; mint_inflation = x1.mint_inflation; now =
                    x1.now; events = x1.events })) (fun x1 ->
                    union0
                      (gset_union
                        (prod_eq_dec (list_eq_dec0 n_eq_dec) Coq_Z.eq_dec)
                        (prod_countable (list_eq_dec0 n_eq_dec)
                          (list_countable n_eq_dec n_countable) Coq_Z.eq_dec
                          z_countable)) x1
                      (singleton0
                        (gset_singleton
                          (prod_eq_dec (list_eq_dec0 n_eq_dec) Coq_Z.eq_dec)
                          (prod_countable (list_eq_dec0 n_eq_dec)
                            (list_countable n_eq_dec n_countable)
                            Coq_Z.eq_dec z_countable)) (acc, id0)))
                    (set (fun s0 -> s0.subs) (fun f ->
                      let g = fun r -> f r.subs in
                      (fun x1 -> { cfg = x1.cfg; bank = x1.bank; supply =
                      x1.supply; deposits = x1.deposits; prov_act =
                      x1.prov_act; prov_inact = x1.prov_inact; node_act =
                      x1.node_act; node_inact = x1.node_inact; node_q =
                      x1.node_q; node_plan = x1.node_plan; plan_count =
                      x1.plan_count; plan_act = x1.plan_act; plan_inact =
                      x1.plan_inact; plan_prov = x1.plan_prov; sub_count =
                      x1.sub_count; subs = (g x1); sub_q = x1.sub_q;
                      sub_acc = x1.sub_acc; sub_node = x1.sub_node;
                      sub_plan = x1.sub_plan; allocs = x1.allocs; payouts =
                      x1.payouts; pay_q = x1.pay_q; pay_acc = x1.pay_acc;
                      pay_node = x1.pay_node; pay_acc_node = x1.pay_acc_node;
                      sess_count = x1.sess_count; sessions = x1.sessions;
                      sess_q = x1.sess_q; sess_acc = x1.sess_acc; sess_node =
                      x1.sess_node; sess_sub = x1.sess_sub; sess_alloc =
                      x1.sess_alloc; pars = x1.pars; modified = x1.modified;
                      swaps = x1.swaps; inflations = x1.inflations;
                      mint_max = x1.mint_max; mint_min = x1.mint_min;
                      mint_rate = x1.mint_rate; mint_inflation =
                      x1.mint_inflation; now = x1.now; events = x1.events }))
                      (fun m ->
                      insert0
                        (map_insert
                          (gmap_partial_alter Coq_Z.eq_dec z_countable)) id0
                        sb m)
                      (set (fun s0 -> s0.sub_count) (fun f ->
                        let z0 = fun r -> f r.sub_count in
                        (fun x1 -> { cfg = x1.cfg; bank = x1.bank; supply =
                        x1.supply; deposits = x1.deposits; prov_act =
                        x1.prov_act; prov_inact = x1.prov_inact; node_act =
                        x1.node_act; node_inact = x1.node_inact; node_q =
                        x1.node_q; node_plan = x1.node_plan; plan_count =
                        x1.plan_count; plan_act = x1.plan_act; plan_inact =
                        x1.plan_inact; plan_prov = x1.plan_prov; sub_count =
                        (z0 x1); subs = x1.subs; sub_q = x1.sub_q; sub_acc =
                        x1.sub_acc; sub_node = x1.sub_node; sub_plan =
                        x1.sub_plan; allocs = x1.allocs; payouts =
                        x1.payouts; pay_q = x1.pay_q; pay_acc = x1.pay_acc;
                        pay_node = x1.pay_node; pay_acc_node =
                        x1.pay_acc_node; sess_count = x1.sess_count;
                        sessions = x1.sessions; sess_q = x1.sess_q;
                        sess_acc = x1.sess_acc; sess_node = x1.sess_node;
                        sess_sub = x1.sess_sub; sess_alloc = x1.sess_alloc;
                        pars = x1.pars; modified = x1.modified; swaps =
                        x1.swaps; inflations = x1.inflations; mint_max =
                        x1.mint_max; mint_min = x1.mint_min; mint_rate =
                        x1.mint_rate; mint_inflation = x1.mint_inflation;
                        now = x1.now; events = x1.events })) (fun _ -> id0)
                        s1))))
            in
            rbind
              (if negb (Z.eqb gigabytes Z0)
               then rbind (int_mul gB gigabytes) (fun g ->
                      let al = { al_id = id0; al_addr = acc; al_granted = g;
                        al_used = Z0 }
                      in
                      Ok
                      (emit
                        (ev (String ((Ascii (true, true, false, false, true,
                          true, true, false)), (String ((Ascii (true, false,
                          true, false, true, true, true, false)), (String
                          ((Ascii (false, true, false, false, false, true,
                          true, false)), (String ((Ascii (true, true, false,
                          false, true, true, true, false)), (String ((Ascii
                          (true, true, false, false, false, true, true,
                          false)), (String ((Ascii (false, true, false,
                          false, true, true, true, false)), (String ((Ascii
                          (true, false, false, true, false, true, true,
                          false)), (String ((Ascii (false, false, false,
                          false, true, true, true, false)), (String ((Ascii
                          (false, false, true, false, true, true, true,
                          false)), (String ((Ascii (true, false, false, true,
                          false, true, true, false)), (String ((Ascii (true,
                          true, true, true, false, true, true, false)),
                          (String ((Ascii (false, true, true, true, false,
                          true, true, false)), (String ((Ascii (false, true,
                          true, true, false, true, false, false)), (String
                          ((Ascii (true, false, true, false, false, false,
                          true, false)), (String ((Ascii (false, true, true,
                          false, true, true, true, false)), (String ((Ascii
                          (true, false, true, false, false, true, true,
                          false)), (String ((Ascii (false, true, true, true,
                          false, true, true, false)), (String ((Ascii (false,
                          false, true, false, true, true, true, false)),
                          (String ((Ascii (true, false, false, false, false,
                          false, true, false)), (String ((Ascii (false,
                          false, true, true, false, true, true, false)),
                          (String ((Ascii (false, false, true, true, false,
                          true, true, false)), (String ((Ascii (true, true,
                          true, true, false, true, true, false)), (String
                          ((Ascii (true, true, false, false, false, true,
                          true, false)), (String ((Ascii (true, false, false,
                          false, false, true, true, false)), (String ((Ascii
                          (false, false, true, false, true, true, true,
                          false)), (String ((Ascii (true, false, true, false,
                          false, true, true, false)),
                          EmptyString))))))))))))))))))))))))))))))))))))))))))))))))))))
                          ((VT (canon RAcc acc)) :: ((VZ g) :: ((VZ
                          Z0) :: ((VZ id0) :: [])))))
                        (set (fun s0 -> s0.allocs) (fun f ->
                          let g0 = fun r -> f r.allocs in
                          (fun x1 -> { cfg = x1.cfg; bank = x1.bank; supply =
                          x1.supply; deposits = x1.deposits; prov_act =
                          x1.prov_act; prov_inact = x1.prov_inact; node_act =
                          x1.node_act; node_inact = x1.node_inact; node_q =
                          x1.node_q; node_plan = x1.node_plan; plan_count =
                          x1.plan_count; plan_act = x1.plan_act; plan_inact =
                          x1.plan_inact; plan_prov = x1.plan_prov;
                          sub_count = x1.sub_count; subs = x1.subs; sub_q =
                          x1.sub_q; sub_acc = x1.sub_acc; sub_node =
                          x1.sub_node; sub_plan = x1.sub_plan; allocs =
                          (g0 x1); payouts = x1.payouts; pay_q = x1.pay_q;
                          pay_acc = x1.pay_acc; pay_node = x1.pay_node;
                          pay_acc_node = x1.pay_acc_node; sess_count =
                          x1.sess_count; sessions = x1.sessions; sess_q =
                          x1.sess_q; sess_acc = x1.sess_acc; sess_node =
                          x1.sess_node; sess_sub = x1.sess_sub; sess_alloc =
                          x1.sess_alloc; pars = x1.pars; modified =
                          x1.modified; swaps = x1.swaps; inflations =
                          x1.inflations; mint_max = x1.mint_max; mint_min =
                          x1.mint_min; mint_rate = x1.mint_rate;
                          mint_inflation = x1.mint_inflation; now = x1.now;
                          events = x1.events })) (fun m ->
                          insert0
                            (map_insert
                              (gmap_partial_alter
                                (prod_eq_dec Coq_Z.eq_dec
                                  (list_eq_dec0 n_eq_dec))
                                (prod_countable Coq_Z.eq_dec z_countable
                                  (list_eq_dec0 n_eq_dec)
                                  (list_countable n_eq_dec n_countable))))
                            (id0, acc) al m) s2)))
               else Ok s2) (fun s3 ->
              rbind
                (if negb (Z.eqb hours Z0)
                 then rbind (int_quo (snd dep2) hours) (fun pr ->
                        rbind (new_coin (fst dep2) pr) (fun pc ->
                          let po = { po_id = id0; po_addr = acc; po_node =
                            nd; po_hours = hours; po_price = pc; po_next_at =
                            s.now }
                          in
                          Ok
                          (emit
                            (ev (String ((Ascii (true, true, false, false,
                              true, true, true, false)), (String ((Ascii
                              (true, false, true, false, true, true, true,
                              false)), (String ((Ascii (false, true, false,
                              false, false, true, true, false)), (String
                              ((Ascii (true, true, false, false, true, true,
                              true, false)), (String ((Ascii (true, true,
                              false, false, false, true, true, false)),
                              (String ((Ascii (false, true, false, false,
                              true, true, true, false)), (String ((Ascii
                              (true, false, false, true, false, true, true,
                              false)), (String ((Ascii (false, false, false,
                              false, true, true, true, false)), (String
                              ((Ascii (false, false, true, false, true, true,
                              true, false)), (String ((Ascii (true, false,
                              false, true, false, true, true, false)),
                              (String ((Ascii (true, true, true, true, false,
                              true, true, false)), (String ((Ascii (false,
                              true, true, true, false, true, true, false)),
                              (String ((Ascii (false, true, true, true,
                              false, true, false, false)), (String ((Ascii
                              (true, false, true, false, false, false, true,
                              false)), (String ((Ascii (false, true, true,
                              false, true, true, true, false)), (String
                              ((Ascii (true, false, true, false, false, true,
                              true, false)), (String ((Ascii (false, true,
                              true, true, false, true, true, false)), (String
                              ((Ascii (false, false, true, false, true, true,
                              true, false)), (String ((Ascii (true, true,
                              false, false, false, false, true, false)),
                              (String ((Ascii (false, true, false, false,
                              true, true, true, false)), (String ((Ascii
                              (true, false, true, false, false, true, true,
                              false)), (String ((Ascii (true, false, false,
                              false, false, true, true, false)), (String
                              ((Ascii (false, false, true, false, true, true,
                              true, false)), (String ((Ascii (true, false,
                              true, false, false, true, true, false)),
                              (String ((Ascii (false, false, false, false,
                              true, false, true, false)), (String ((Ascii
                              (true, false, false, false, false, true, true,
                              false)), (String ((Ascii (true, false, false,
                              true, true, true, true, false)), (String
                              ((Ascii (true, true, true, true, false, true,
                              true, false)), (String ((Ascii (true, false,
                              true, false, true, true, true, false)), (String
                              ((Ascii (false, false, true, false, true, true,
                              true, false)),
                              EmptyString))))))))))))))))))))))))))))))))))))))))))))))))))))))))))))
                              ((VT (canon RAcc acc)) :: ((VT
                              (canon RNode nd)) :: ((VZ id0) :: []))))
                            (set (fun s0 -> s0.pay_q) (fun f ->
                              let g = fun r -> f r.pay_q in
                              (fun x1 -> { cfg = x1.cfg; bank = x1.bank;
                              supply = x1.supply; deposits = x1.deposits;
                              prov_act = x1.prov_act; prov_inact =
                              x1.prov_inact; node_act = x1.node_act;
                              node_inact = x1.node_inact; node_q = x1.node_q;
                              node_plan = x1.node_plan; plan_count =
                              x1.plan_count; plan_act = x1.plan_act;
                              plan_inact = x1.plan_inact; plan_prov =
                              x1.plan_prov; sub_count = x1.sub_count; subs =
                              x1.subs; sub_q = x1.sub_q; sub_acc =
                              x1.sub_acc; sub_node = x1.sub_node; sub_plan =
                              x1.sub_plan; allocs = x1.allocs; payouts =
                              x1.payouts; pay_q = (g x1); pay_acc =
                              x1.pay_acc; pay_node = x1.pay_node;
                              pay_acc_node = x1.pay_acc_node; sess_count =
                              x1.sess_count; sessions = x1.sessions; sess_q =
                              x1.sess_q; sess_acc = x1.sess_acc; sess_node =
                              x1.sess_node; sess_sub = x1.sess_sub;
                              sess_alloc = x1.sess_alloc; pars = x1.pars;
                              modified = x1.modified; swaps = x1.swaps;
                              inflations = x1.inflations; mint_max =
                              x1.mint_max; mint_min = x1.mint_min;
                              mint_rate = x1.mint_rate; mint_inflation =
                              x1.mint_inflation; now = x1.now; events =
                              x1.events })) (fun x1 ->
                              union0
                                (gset_union
                                  (prod_eq_dec Coq_Z.eq_dec Coq_Z.eq_dec)
                                  (prod_countable Coq_Z.eq_dec z_countable
                                    Coq_Z.eq_dec z_countable)) x1
                                (singleton0
                                  (gset_singleton
                                    (prod_eq_dec Coq_Z.eq_dec Coq_Z.eq_dec)
                                    (prod_countable Coq_Z.eq_dec z_countable
                                      Coq_Z.eq_dec z_countable)) (s.now, id0)))
                              (set (fun s0 -> s0.pay_acc_node) (fun f ->
                                let g = fun r -> f r.pay_acc_node in
                                (fun x1 -> { cfg = x1.cfg; bank = x1.bank;
                                supply = x1.supply; deposits = x1.deposits;
                                prov_act = x1.prov_act; prov_inact =
                                x1.prov_inact; node_act = x1.node_act;
                                node_inact = x1.node_inact; node_q =
                                x1.node_q; node_plan = x1.node_plan;
                                plan_count = x1.plan_count; plan_act =
                                x1.plan_act; plan_inact = x1.plan_inact;
                                plan_prov = x1.plan_prov; sub_count =
                                x1.sub_count; subs = x1.subs; sub_q =
                                x1.sub_q; sub_acc = x1.sub_acc; sub_node =
                                x1.sub_node; sub_plan = x1.sub_plan; allocs =
                                x1.allocs; payouts = x1.payouts; pay_q =
                                x1.pay_q; pay_acc = x1.pay_acc; pay_node =
                                x1.pay_node; pay_acc_node = (g x1);
                                sess_count = x1.sess_count; sessions =
                                x1.sessions; sess_q = x1.sess_q; sess_acc =
                                x1.sess_acc; sess_node = x1.sess_node;
                                sess_sub = x1.sess_sub; sess_alloc =
                                x1.sess_alloc; pars = x1.pars; modified =
                                x1.modified; swaps = x1.swaps; inflations =
                                x1.inflations; mint_max = x1.mint_max;
                                mint_min = x1.mint_min; mint_rate =
                                x1.mint_rate; mint_inflation =
                                x1.mint_inflation; now = x1.now; events =
                                x1.events })) (fun x1 ->
                                union0
                                  (gset_union
                                    (prod_eq_dec
                                      (prod_eq_dec (list_eq_dec0 n_eq_dec)
                                        (list_eq_dec0 n_eq_dec)) Coq_Z.eq_dec)
                                    (prod_countable
                                      (prod_eq_dec (list_eq_dec0 n_eq_dec)
                                        (list_eq_dec0 n_eq_dec))
                                      (prod_countable (list_eq_dec0 n_eq_dec)
                                        (list_countable n_eq_dec n_countable)
                                        (list_eq_dec0 n_eq_dec)
                                        (list_countable n_eq_dec n_countable))
                                      Coq_Z.eq_dec z_countable)) x1
                                  (singleton0
                                    (gset_singleton
                                      (prod_eq_dec
                                        (prod_eq_dec (list_eq_dec0 n_eq_dec)
                                          (list_eq_dec0 n_eq_dec))
                                        Coq_Z.eq_dec)
                                      (prod_countable
                                        (prod_eq_dec (list_eq_dec0 n_eq_dec)
                                          (list_eq_dec0 n_eq_dec))
                                        (prod_countable
                                          (list_eq_dec0 n_eq_dec)
                                          (list_countable n_eq_dec
                                            n_countable)
                                          (list_eq_dec0 n_eq_dec)
                                          (list_countable n_eq_dec
                                            n_countable)) Coq_Z.eq_dec
                                        z_countable)) ((acc, nd), id0)))
                                (set (fun s0 -> s0.pay_node) (fun f ->
                                  let g = fun r -> f r.pay_node in
                                  (fun x1 -> { cfg = x1.cfg; bank = x1.bank;
                                  supply = x1.supply; deposits = x1.deposits;
                                  prov_act = x1.prov_act; prov_inact =
                                  x1.prov_inact; node_act = x1.node_act;
                                  node_inact = x1.node_inact; node_q =
                                  x1.node_q; node_plan = x1.node_plan;
                                  plan_count = x1.plan_count; plan_act =
                                  x1.plan_act; plan_inact = x1.plan_inact;
                                  plan_prov = x1.plan_prov; sub_count =
                                  x1.sub_count; subs = x1.subs; sub_q =
                                  x1.sub_q; sub_acc = x1.sub_acc; sub_node =
                                  x1.sub_node; sub_plan = x1.sub_plan;
                                  allocs = x1.allocs; payouts = x1.payouts;
                                  pay_q = x1.pay_q; pay_acc = x1.pay_acc;
                                  pay_node = (g x1); pay_acc_node =
                                  x1.pay_acc_node; sess_count =
                                  x1.sess_count; sessions = x1.sessions;
                                  sess_q = x1.sess_q; sess_acc = x1.sess_acc;
                                  sess_node = x1.sess_node; sess_sub =
                                  x1.sess_sub; sess_alloc = x1.sess_alloc;
                                  pars = x1.pars; modified = x1.modified;
                                  swaps = x1.swaps; inflations =
                                  x1.inflations; mint_max = x1.mint_max;
                                  mint_min = x1.mint_min; mint_rate =
                                  x1.mint_rate; mint_inflation =
                                  x1.mint_inflation; now = x1.now; events =
                                  x1.events })) (fun x1 ->
                                  union0
                                    (gset_union
                                      (prod_eq_dec (list_eq_dec0 n_eq_dec)
                                        Coq_Z.eq_dec)
                                      (prod_countable (list_eq_dec0 n_eq_dec)
                                        (list_countable n_eq_dec n_countable)
                                        Coq_Z.eq_dec z_countable)) x1
                                    (singleton0
                                      (gset_singleton
                                        (prod_eq_dec (list_eq_dec0 n_eq_dec)
                                          Coq_Z.eq_dec)
                                        (prod_countable
                                          (list_eq_dec0 n_eq_dec)
                                          (list_countable n_eq_dec
                                            n_countable) Coq_Z.eq_dec
                                          z_countable)) (nd, id0)))
                                  (set (fun s0 -> s0.pay_acc) (fun f ->
                                    let g = fun r -> f r.pay_acc in
                                    (fun x1 -> { cfg = x1.cfg; bank =
                                    x1.bank; supply = x1.supply; deposits =
                                    x1.deposits; prov_act = x1.prov_act;
                                    prov_inact = x1.prov_inact; node_act =
                                    x1.node_act; node_inact = x1.node_inact;
                                    node_q = x1.node_q; node_plan =
                                    x1.node_plan; plan_count = x1.plan_count;
                                    plan_act = x1.plan_act; plan_inact =
                                    x1.plan_inact; plan_prov = x1.plan_prov;
                                    sub_count = x1.sub_count; subs = x1.subs;
                                    sub_q = x1.sub_q; sub_acc = x1.sub_acc;
                                    sub_node = x1.sub_node; sub_plan =
                                    x1.sub_plan; allocs = x1.allocs;
                                    payouts = x1.payouts; pay_q = x1.pay_q;
                                    pay_acc = (g x1); pay_node = x1.pay_node;
                                    pay_acc_node = x1.pay_acc_node;
                                    sess_count = x1.sess_count; sessions =
                                    x1.sessions; sess_q = x1.sess_q;
                                    sess_acc = x1.sess_acc; sess_node =
                                    x1.sess_node; sess_sub = x1.sess_sub;
                                    sess_alloc = x1.sess_alloc; pars =
                                    x1.pars; modified = x1.modified; swaps =
                                    x1.swaps; inflations = x1.inflations;
                                    mint_max = x1.mint_max; mint_min =
                                    x1.mint_min; mint_rate = x1.mint_rate;
                                    mint_inflation = x1.mint_inflation; now =
                                    x1.now; events = x1.events })) (fun x1 ->
                                    union0
                                      (gset_union
                                        (prod_eq_dec (list_eq_dec0 n_eq_dec)
                                          Coq_Z.eq_dec)
                                        (prod_countable
                                          (list_eq_dec0 n_eq_dec)
                                          (list_countable n_eq_dec
                                            n_countable) Coq_Z.eq_dec
                                          z_countable)) x1
                                      (singleton0
                                        (gset_singleton
                                          (prod_eq_dec
                                            (list_eq_dec0 n_eq_dec)
                                            Coq_Z.eq_dec)
                                          (prod_countable
                                            (list_eq_dec0 n_eq_dec)
                                            (list_countable n_eq_dec
                                              n_countable) Coq_Z.eq_dec
                                            z_countable)) (acc, id0)))
                                    (set (fun s0 -> s0.payouts) (fun f ->
                                      let g = fun r -> f r.payouts in
                                      (fun x1 -> { cfg = x1.cfg; bank =
                                      x1.bank; supply = x1.supply; deposits =
                                      x1.deposits; prov_act = x1.prov_act;
                                      prov_inact = x1.prov_inact; node_act =
                                      x1.node_act; node_inact =
                                      x1.node_inact; node_q = x1.node_q;
                                      node_plan = x1.node_plan; plan_count =
                                      x1.plan_count; plan_act = x1.plan_act;
                                      plan_inact = x1.plan_inact; plan_prov =
                                      x1.plan_prov; sub_count = x1.sub_count;
                                      subs = x1.subs; sub_q = x1.sub_q;
                                      sub_acc = x1.sub_acc; sub_node =
                                      x1.sub_node; sub_plan = x1.sub_plan;
                                      allocs = x1.allocs; payouts = (g x1);
                                      pay_q = x1.pay_q; pay_acc = x1.pay_acc;
                                      pay_node = x1.pay_node; pay_acc_node =
                                      x1.pay_acc_node; sess_count =
                                      x1.sess_count; sessions = x1.sessions;
                                      sess_q = x1.sess_q; sess_acc =
                                      x1.sess_acc; sess_node = x1.sess_node;
                                      sess_sub = x1.sess_sub; sess_alloc =
                                      x1.sess_alloc; pars = x1.pars;
                                      modified = x1.modified; swaps =
                                      x1.swaps; inflations = x1.inflations;
                                      mint_max = x1.mint_max; mint_min =
                                      x1.mint_min; mint_rate = x1.mint_rate;
                                      mint_inflation = x1.mint_inflation;
                                      now = x1.now; events = x1.events }))
                                      (fun m ->
                                      insert0
                                        (map_insert
                                          (gmap_partial_alter Coq_Z.eq_dec
                                            z_countable)) id0 po m) s3))))))))
                 else Ok s3) (fun s4 -> Ok (s4, id0)))))))
  | None -> Err

(** val h_node_subscribe :
    state -> taddr -> taddr -> z -> z -> denom -> state res **)

let h_node_subscribe s from nd gigabytes hours dn =
  rbind (ensure ((||) (Z.eqb gigabytes Z0) (valid_sub_gb s gigabytes)))
    (fun _ ->
    rbind (ensure ((||) (Z.eqb hours Z0) (valid_sub_hr s hours))) (fun _ ->
      rbind
        (create_sub_for_node s from.ta_bytes nd.ta_bytes gigabytes hours dn)
        (fun x ->
        let (s1, id0) = x in
        Ok
        (emit
          (ev (String ((Ascii (false, true, true, true, false, true, true,
            false)), (String ((Ascii (true, true, true, true, false, true,
            true, false)), (String ((Ascii (false, false, true, false, false,
            true, true, false)), (String ((Ascii (true, false, true, false,
            false, true, true, false)), (String ((Ascii (false, true, true,
            true, false, true, false, false)), (String ((Ascii (true, false,
            true, false, false, false, true, false)), (String ((Ascii (false,
            true, true, false, true, true, true, false)), (String ((Ascii
            (true, false, true, false, false, true, true, false)), (String
            ((Ascii (false, true, true, true, false, true, true, false)),
            (String ((Ascii (false, false, true, false, true, true, true,
            false)), (String ((Ascii (true, true, false, false, false, false,
            true, false)), (String ((Ascii (false, true, false, false, true,
            true, true, false)), (String ((Ascii (true, false, true, false,
            false, true, true, false)), (String ((Ascii (true, false, false,
            false, false, true, true, false)), (String ((Ascii (false, false,
            true, false, true, true, true, false)), (String ((Ascii (true,
            false, true, false, false, true, true, false)), (String ((Ascii
            (true, true, false, false, true, false, true, false)), (String
            ((Ascii (true, false, true, false, true, true, true, false)),
            (String ((Ascii (false, true, false, false, false, true, true,
            false)), (String ((Ascii (true, true, false, false, true, true,
            true, false)), (String ((Ascii (true, true, false, false, false,
            true, true, false)), (String ((Ascii (false, true, false, false,
            true, true, true, false)), (String ((Ascii (true, false, false,
            true, false, true, true, false)), (String ((Ascii (false, false,
            false, false, true, true, true, false)), (String ((Ascii (false,
            false, true, false, true, true, true, false)), (String ((Ascii
            (true, false, false, true, false, true, true, false)), (String
            ((Ascii (true, true, true, true, false, true, true, false)),
            (String ((Ascii (false, true, true, true, false, true, true,
            false)),
            EmptyString))))))))))))))))))))))))))))))))))))))))))))))))))))))))
            ((VT (canon RAcc from.ta_bytes)) :: ((VT
            (canon RNode nd.ta_bytes)) :: ((VZ id0) :: [])))) s1))))

(** val h_plan_create : state -> taddr -> z -> z -> coin list -> state res **)

let h_plan_create s from duration gigabytes prices =
  let a = from.ta_bytes in
  rbind (ensure (has_provider s a)) (fun _ ->
    let id0 = Z.add s.plan_count (Zpos XH) in
    let p = { pl_id = id0; pl_prov = a; pl_duration = duration; pl_gb =
      gigabytes; pl_prices = (coins_of prices); pl_status = SInactive;
      pl_status_at = s.now }
    in
    rbind
      (set_plan
        (set (fun s0 -> s0.plan_count) (fun f ->
          let z0 = fun r -> f r.plan_count in
          (fun x -> { cfg = x.cfg; bank = x.bank; supply = x.supply;
          deposits = x.deposits; prov_act = x.prov_act; prov_inact =
          x.prov_inact; node_act = x.node_act; node_inact = x.node_inact;
          node_q = x.node_q; node_plan = x.node_plan; plan_count = (z0 x);
          plan_act = x.plan_act; plan_inact = x.plan_inact; plan_prov =
          x.plan_prov; sub_count = x.sub_count; subs = x.subs; sub_q =
          x.sub_q; sub_acc = x.sub_acc; sub_node = x.sub_node; sub_plan =
          x.sub_plan; allocs = x.allocs; payouts = x.payouts; pay_q =
          x.pay_q; pay_acc = x.pay_acc; pay_node = x.pay_node; pay_acc_node =
          x.pay_acc_node; sess_count = x.sess_count; sessions = x.sessions;
          sess_q = x.sess_q; sess_acc = x.sess_acc; sess_node = x.sess_node;
          sess_sub = x.sess_sub; sess_alloc = x.sess_alloc; pars = x.pars;
          modified = x.modified; swaps = x.swaps; inflations = x.inflations;
          mint_max = x.mint_max; mint_min = x.mint_min; mint_rate =
          x.mint_rate; mint_inflation = x.mint_inflation; now = x.now;
          events = x.events })) (fun _ -> id0) s) p) (fun s1 -> Ok
      (emit
        (ev (String ((Ascii (false, false, false, false, true, true, true,
          false)), (String ((Ascii (false, false, true, true, false, true,
          true, false)), (String ((Ascii (true, false, false, false, false,
          true, true, false)), (String ((Ascii (false, true, true, true,
          false, true, true, false)), (String ((Ascii (false, true, true,
          true, false, true, false, false)), (String ((Ascii (true, false,
          true, false, false, false, true, false)), (String ((Ascii (false,
          true, true, false, true, true, true, false)), (String ((Ascii
          (true, false, true, false, false, true, true, false)), (String
          ((Ascii (false, true, true, true, false, true, true, false)),
          (String ((Ascii (false, false, true, false, true, true, true,
          false)), (String ((Ascii (true, true, false, false, false, false,
          true, false)), (String ((Ascii (false, true, false, false, true,
          true, true, false)), (String ((Ascii (true, false, true, false,
          false, true, true, false)), (String ((Ascii (true, false, false,
          false, false, true, true, false)), (String ((Ascii (false, false,
          true, false, true, true, true, false)), (String ((Ascii (true,
          false, true, false, false, true, true, false)),
          EmptyString)))))))))))))))))))))))))))))))) ((VT
          (canon RProv a)) :: ((VZ id0) :: [])))
        (set (fun s0 -> s0.plan_prov) (fun f ->
          let g = fun r -> f r.plan_prov in
          (fun x -> { cfg = x.cfg; bank = x.bank; supply = x.supply;
          deposits = x.deposits; prov_act = x.prov_act; prov_inact =
          x.prov_inact; node_act = x.node_act; node_inact = x.node_inact;
          node_q = x.node_q; node_plan = x.node_plan; plan_count =
          x.plan_count; plan_act = x.plan_act; plan_inact = x.plan_inact;
          plan_prov = (g x); sub_count = x.sub_count; subs = x.subs; sub_q =
          x.sub_q; sub_acc = x.sub_acc; sub_node = x.sub_node; sub_plan =
          x.sub_plan; allocs = x.allocs; payouts = x.payouts; pay_q =
          x.pay_q; pay_acc = x.pay_acc; pay_node = x.pay_node; pay_acc_node =
          x.pay_acc_node; sess_count = x.sess_count; sessions = x.sessions;
          sess_q = x.sess_q; sess_acc = x.sess_acc; sess_node = x.sess_node;
          sess_sub = x.sess_sub; sess_alloc = x.sess_alloc; pars = x.pars;
          modified = x.modified; swaps = x.swaps; inflations = x.inflations;
          mint_max = x.mint_max; mint_min = x.mint_min; mint_rate =
          x.mint_rate; mint_inflation = x.mint_inflation; now = x.now;
          events = x.events })) (fun x ->
          union0
            (gset_union (prod_eq_dec (list_eq_dec0 n_eq_dec) Coq_Z.eq_dec)
              (prod_countable (list_eq_dec0 n_eq_dec)
                (list_countable n_eq_dec n_countable) Coq_Z.eq_dec
                z_countable)) x
            (singleton0
              (gset_singleton
                (prod_eq_dec (list_eq_dec0 n_eq_dec) Coq_Z.eq_dec)
                (prod_countable (list_eq_dec0 n_eq_dec)
                  (list_countable n_eq_dec n_countable) Coq_Z.eq_dec
                  z_countable)) (a, id0))) s1))))

(** val plan_authorised : plan -> taddr -> bool **)

let plan_authorised p from =
  ta_eqb from (canon RProv p.pl_prov)

(** val h_plan_update_status : state -> taddr -> z -> status -> state res **)

let h_plan_update_status s from id0 st =
  match get_plan s id0 with
  | Some p ->
    rbind (ensure (plan_authorised p from)) (fun _ ->
      let s1 =
        if bool_decide
             (and_dec (decide_rel status_eq_dec p.pl_status SActive)
               (decide_rel status_eq_dec st SInactive))
        then set (fun s0 -> s0.plan_act) (fun f ->
               let g = fun r -> f r.plan_act in
               (fun x -> { cfg = x.cfg; bank = x.bank; supply = x.supply;
               deposits = x.deposits; prov_act = x.prov_act; prov_inact =
               x.prov_inact; node_act = x.node_act; node_inact =
               x.node_inact; node_q = x.node_q; node_plan = x.node_plan;
               plan_count = x.plan_count; plan_act = (g x); plan_inact =
               x.plan_inact; plan_prov = x.plan_prov; sub_count =
               x.sub_count; subs = x.subs; sub_q = x.sub_q; sub_acc =
               x.sub_acc; sub_node = x.sub_node; sub_plan = x.sub_plan;
               allocs = x.allocs; payouts = x.payouts; pay_q = x.pay_q;
               pay_acc = x.pay_acc; pay_node = x.pay_node; pay_acc_node =
               x.pay_acc_node; sess_count = x.sess_count; sessions =
               x.sessions; sess_q = x.sess_q; sess_acc = x.sess_acc;
               sess_node = x.sess_node; sess_sub = x.sess_sub; sess_alloc =
               x.sess_alloc; pars = x.pars; modified = x.modified; swaps =
               x.swaps; inflations = x.inflations; mint_max = x.mint_max;
               mint_min = x.mint_min; mint_rate = x.mint_rate;
               mint_inflation = x.mint_inflation; now = x.now; events =
               x.events })) (fun m ->
               delete0
                 (map_delete (gmap_partial_alter Coq_Z.eq_dec z_countable))
                 id0 m) s
        else s
      in
      let s2 =
        if bool_decide
             (and_dec (decide_rel status_eq_dec p.pl_status SInactive)
               (decide_rel status_eq_dec st SActive))
        then set (fun s0 -> s0.plan_inact) (fun f ->
               let g = fun r -> f r.plan_inact in
               (fun x -> { cfg = x.cfg; bank = x.bank; supply = x.supply;
               deposits = x.deposits; prov_act = x.prov_act; prov_inact =
               x.prov_inact; node_act = x.node_act; node_inact =
               x.node_inact; node_q = x.node_q; node_plan = x.node_plan;
               plan_count = x.plan_count; plan_act = x.plan_act; plan_inact =
               (g x); plan_prov = x.plan_prov; sub_count = x.sub_count;
               subs = x.subs; sub_q = x.sub_q; sub_acc = x.sub_acc;
               sub_node = x.sub_node; sub_plan = x.sub_plan; allocs =
               x.allocs; payouts = x.payouts; pay_q = x.pay_q; pay_acc =
               x.pay_acc; pay_node = x.pay_node; pay_acc_node =
               x.pay_acc_node; sess_count = x.sess_count; sessions =
               x.sessions; sess_q = x.sess_q; sess_acc = x.sess_acc;
               sess_node = x.sess_node; sess_sub = x.sess_sub; sess_alloc =
               x.sess_alloc; pars = x.pars; modified = x.modified; swaps =
               x.swaps; inflations = x.inflations; mint_max = x.mint_max;
               mint_min = x.mint_min; mint_rate = x.mint_rate;
               mint_inflation = x.mint_inflation; now = x.now; events =
               x.events })) (fun m ->
               delete0
                 (map_delete (gmap_partial_alter Coq_Z.eq_dec z_countable))
                 id0 m) s1
        else s1
      in
      rbind
        (set_plan s2
          (set (fun p0 -> p0.pl_status_at) (fun f ->
            let t0 = fun r -> f r.pl_status_at in
            (fun x -> { pl_id = x.pl_id; pl_prov = x.pl_prov; pl_duration =
            x.pl_duration; pl_gb = x.pl_gb; pl_prices = x.pl_prices;
            pl_status = x.pl_status; pl_status_at = (t0 x) })) (fun _ ->
            s.now)
            (set (fun p0 -> p0.pl_status) (fun f ->
              let s0 = fun r -> f r.pl_status in
              (fun x -> { pl_id = x.pl_id; pl_prov = x.pl_prov; pl_duration =
              x.pl_duration; pl_gb = x.pl_gb; pl_prices = x.pl_prices;
              pl_status = (s0 x); pl_status_at = x.pl_status_at })) (fun _ ->
              st) p))) (fun s3 -> Ok
        (emit
          (ev (String ((Ascii (false, false, false, false, true, true, true,
            false)), (String ((Ascii (false, false, true, true, false, true,
            true, false)), (String ((Ascii (true, false, false, false, false,
            true, true, false)), (String ((Ascii (false, true, true, true,
            false, true, true, false)), (String ((Ascii (false, true, true,
            true, false, true, false, false)), (String ((Ascii (true, false,
            true, false, false, false, true, false)), (String ((Ascii (false,
            true, true, false, true, true, true, false)), (String ((Ascii
            (true, false, true, false, false, true, true, false)), (String
            ((Ascii (false, true, true, true, false, true, true, false)),
            (String ((Ascii (false, false, true, false, true, true, true,
            false)), (String ((Ascii (true, false, true, false, true, false,
            true, false)), (String ((Ascii (false, false, false, false, true,
            true, true, false)), (String ((Ascii (false, false, true, false,
            false, true, true, false)), (String ((Ascii (true, false, false,
            false, false, true, true, false)), (String ((Ascii (false, false,
            true, false, true, true, true, false)), (String ((Ascii (true,
            false, true, false, false, true, true, false)), (String ((Ascii
            (true, true, false, false, true, false, true, false)), (String
            ((Ascii (false, false, true, false, true, true, true, false)),
            (String ((Ascii (true, false, false, false, false, true, true,
            false)), (String ((Ascii (false, false, true, false, true, true,
            true, false)), (String ((Ascii (true, false, true, false, true,
            true, true, false)), (String ((Ascii (true, true, false, false,
            true, true, true, false)),
            EmptyString)))))))))))))))))))))))))))))))))))))))))))) ((VS
            st) :: ((VT (canon RProv p.pl_prov)) :: ((VZ id0) :: [])))) s3)))
  | None -> Err

(** val h_plan_link : state -> taddr -> z -> taddr -> state res **)

let h_plan_link s from id0 nd =
  match get_plan s id0 with
  | Some p ->
    rbind (ensure (plan_authorised p from)) (fun _ ->
      rbind (ensure (has_node s nd.ta_bytes)) (fun _ -> Ok
        (emit
          (ev (String ((Ascii (false, false, false, false, true, true, true,
            false)), (String ((Ascii (false, false, true, true, false, true,
            true, false)), (String ((Ascii (true, false, false, false, false,
            true, true, false)), (String ((Ascii (false, true, true, true,
            false, true, true, false)), (String ((Ascii (false, true, true,
            true, false, true, false, false)), (String ((Ascii (true, false,
            true, false, false, false, true, false)), (String ((Ascii (false,
            true, true, false, true, true, true, false)), (String ((Ascii
            (true, false, true, false, false, true, true, false)), (String
            ((Ascii (false, true, true, true, false, true, true, false)),
            (String ((Ascii (false, false, true, false, true, true, true,
            false)), (String ((Ascii (false, false, true, true, false, false,
            true, false)), (String ((Ascii (true, false, false, true, false,
            true, true, false)), (String ((Ascii (false, true, true, true,
            false, true, true, false)), (String ((Ascii (true, true, false,
            true, false, true, true, false)), (String ((Ascii (false, true,
            true, true, false, false, true, false)), (String ((Ascii (true,
            true, true, true, false, true, true, false)), (String ((Ascii
            (false, false, true, false, false, true, true, false)), (String
            ((Ascii (true, false, true, false, false, true, true, false)),
            EmptyString)))))))))))))))))))))))))))))))))))) ((VT
            (canon RProv p.pl_prov)) :: ((VT nd) :: ((VZ id0) :: []))))
          (set (fun s0 -> s0.node_plan) (fun f ->
            let g = fun r -> f r.node_plan in
            (fun x -> { cfg = x.cfg; bank = x.bank; supply = x.supply;
            deposits = x.deposits; prov_act = x.prov_act; prov_inact =
            x.prov_inact; node_act = x.node_act; node_inact = x.node_inact;
            node_q = x.node_q; node_plan = (g x); plan_count = x.plan_count;
            plan_act = x.plan_act; plan_inact = x.plan_inact; plan_prov =
            x.plan_prov; sub_count = x.sub_count; subs = x.subs; sub_q =
            x.sub_q; sub_acc = x.sub_acc; sub_node = x.sub_node; sub_plan =
            x.sub_plan; allocs = x.allocs; payouts = x.payouts; pay_q =
            x.pay_q; pay_acc = x.pay_acc; pay_node = x.pay_node;
            pay_acc_node = x.pay_acc_node; sess_count = x.sess_count;
            sessions = x.sessions; sess_q = x.sess_q; sess_acc = x.sess_acc;
            sess_node = x.sess_node; sess_sub = x.sess_sub; sess_alloc =
            x.sess_alloc; pars = x.pars; modified = x.modified; swaps =
            x.swaps; inflations = x.inflations; mint_max = x.mint_max;
            mint_min = x.mint_min; mint_rate = x.mint_rate; mint_inflation =
            x.mint_inflation; now = x.now; events = x.events })) (fun x ->
            union0
              (gset_union (prod_eq_dec Coq_Z.eq_dec (list_eq_dec0 n_eq_dec))
                (prod_countable Coq_Z.eq_dec z_countable
                  (list_eq_dec0 n_eq_dec)
                  (list_countable n_eq_dec n_countable))) x
              (singleton0
                (gset_singleton
                  (prod_eq_dec Coq_Z.eq_dec (list_eq_dec0 n_eq_dec))
                  (prod_countable Coq_Z.eq_dec z_countable
                    (list_eq_dec0 n_eq_dec)
                    (list_countable n_eq_dec n_countable))) (id0,
                nd.ta_bytes))) s))))
  | None -> Err

(** val h_plan_unlink : state -> taddr -> z -> taddr -> state res **)

let h_plan_unlink s from id0 nd =
  match get_plan s id0 with
  | Some p ->
    rbind (ensure (plan_authorised p from)) (fun _ -> Ok
      (emit
        (ev (String ((Ascii (false, false, false, false, true, true, true,
          false)), (String ((Ascii (false, false, true, true, false, true,
          true, false)), (String ((Ascii (true, false, false, false, false,
          true, true, false)), (String ((Ascii (false, true, true, true,
          false, true, true, false)), (String ((Ascii (false, true, true,
          true, false, true, false, false)), (String ((Ascii (true, false,
          true, false, false, false, true, false)), (String ((Ascii (false,
          true, true, false, true, true, true, false)), (String ((Ascii
          (true, false, true, false, false, true, true, false)), (String
          ((Ascii (false, true, true, true, false, true, true, false)),
          (String ((Ascii (false, false, true, false, true, true, true,
          false)), (String ((Ascii (true, false, true, false, true, false,
          true, false)), (String ((Ascii (false, true, true, true, false,
          true, true, false)), (String ((Ascii (false, false, true, true,
          false, true, true, false)), (String ((Ascii (true, false, false,
          true, false, true, true, false)), (String ((Ascii (false, true,
          true, true, false, true, true, false)), (String ((Ascii (true,
          true, false, true, false, true, true, false)), (String ((Ascii
          (false, true, true, true, false, false, true, false)), (String
          ((Ascii (true, true, true, true, false, true, true, false)),
          (String ((Ascii (false, false, true, false, false, true, true,
          false)), (String ((Ascii (true, false, true, false, false, true,
          true, false)), EmptyString))))))))))))))))))))))))))))))))))))))))
          ((VT (canon RProv p.pl_prov)) :: ((VT nd) :: ((VZ id0) :: []))))
        (set (fun s0 -> s0.node_plan) (fun f ->
          let g = fun r -> f r.node_plan in
          (fun x -> { cfg = x.cfg; bank = x.bank; supply = x.supply;
          deposits = x.deposits; prov_act = x.prov_act; prov_inact =
          x.prov_inact; node_act = x.node_act; node_inact = x.node_inact;
          node_q = x.node_q; node_plan = (g x); plan_count = x.plan_count;
          plan_act = x.plan_act; plan_inact = x.plan_inact; plan_prov =
          x.plan_prov; sub_count = x.sub_count; subs = x.subs; sub_q =
          x.sub_q; sub_acc = x.sub_acc; sub_node = x.sub_node; sub_plan =
          x.sub_plan; allocs = x.allocs; payouts = x.payouts; pay_q =
          x.pay_q; pay_acc = x.pay_acc; pay_node = x.pay_node; pay_acc_node =
          x.pay_acc_node; sess_count = x.sess_count; sessions = x.sessions;
          sess_q = x.sess_q; sess_acc = x.sess_acc; sess_node = x.sess_node;
          sess_sub = x.sess_sub; sess_alloc = x.sess_alloc; pars = x.pars;
          modified = x.modified; swaps = x.swaps; inflations = x.inflations;
          mint_max = x.mint_max; mint_min = x.mint_min; mint_rate =
          x.mint_rate; mint_inflation = x.mint_inflation; now = x.now;
          events = x.events })) (fun x ->
          difference0
            (gset_difference
              (prod_eq_dec Coq_Z.eq_dec (list_eq_dec0 n_eq_dec))
              (prod_countable Coq_Z.eq_dec z_countable
                (list_eq_dec0 n_eq_dec) (list_countable n_eq_dec n_countable)))
            x
            (singleton0
              (gset_singleton
                (prod_eq_dec Coq_Z.eq_dec (list_eq_dec0 n_eq_dec))
                (prod_countable Coq_Z.eq_dec z_countable
                  (list_eq_dec0 n_eq_dec)
                  (list_countable n_eq_dec n_countable))) (id0, nd.ta_bytes)))
          s)))
  | None -> Err

(** val create_sub_for_plan :
    state -> addr -> z -> denom -> (state * z) res **)

let create_sub_for_plan s acc pid dn =
  match get_plan s pid with
  | Some p ->
    rbind
      (ensure (bool_decide (decide_rel status_eq_dec p.pl_status SActive)))
      (fun _ ->
      match lookup0 (gmap_lookup n_eq_dec n_countable) dn p.pl_prices with
      | Some price ->
        rbind (proportion price s.pars.p_prov_share) (fun reward ->
          rbind (z_send s acc s.cfg.c_feecoll (dn, reward)) (fun s1 ->
            rbind (coin_sub (dn, price) reward) (fun payment ->
              rbind (z_send s1 acc p.pl_prov payment) (fun s2 ->
                let s3 =
                  emit
                    (ev (String ((Ascii (true, true, false, false, true,
                      true, true, false)), (String ((Ascii (true, false,
                      true, false, true, true, true, false)), (String ((Ascii
                      (false, true, false, false, false, true, true, false)),
                      (String ((Ascii (true, true, false, false, true, true,
                      true, false)), (String ((Ascii (true, true, false,
                      false, false, true, true, false)), (String ((Ascii
                      (false, true, false, false, true, true, true, false)),
                      (String ((Ascii (true, false, false, true, false, true,
                      true, false)), (String ((Ascii (false, false, false,
                      false, true, true, true, false)), (String ((Ascii
                      (false, false, true, false, true, true, true, false)),
                      (String ((Ascii (true, false, false, true, false, true,
                      true, false)), (String ((Ascii (true, true, true, true,
                      false, true, true, false)), (String ((Ascii (false,
                      true, true, true, false, true, true, false)), (String
                      ((Ascii (false, true, true, true, false, true, false,
                      false)), (String ((Ascii (true, false, true, false,
                      false, false, true, false)), (String ((Ascii (false,
                      true, true, false, true, true, true, false)), (String
                      ((Ascii (true, false, true, false, false, true, true,
                      false)), (String ((Ascii (false, true, true, true,
                      false, true, true, false)), (String ((Ascii (false,
                      false, true, false, true, true, true, false)), (String
                      ((Ascii (false, false, false, false, true, false, true,
                      false)), (String ((Ascii (true, false, false, false,
                      false, true, true, false)), (String ((Ascii (true,
                      false, false, true, true, true, true, false)), (String
                      ((Ascii (false, true, true, false, false, false, true,
                      false)), (String ((Ascii (true, true, true, true,
                      false, true, true, false)), (String ((Ascii (false,
                      true, false, false, true, true, true, false)), (String
                      ((Ascii (false, false, false, false, true, false, true,
                      false)), (String ((Ascii (false, false, true, true,
                      false, true, true, false)), (String ((Ascii (true,
                      false, false, false, false, true, true, false)),
                      (String ((Ascii (false, true, true, true, false, true,
                      true, false)),
                      EmptyString))))))))))))))))))))))))))))))))))))))))))))))))))))))))
                      ((VT (canon RAcc acc)) :: ((VC (payment :: [])) :: ((VT
                      (canon RProv p.pl_prov)) :: ((VC ((dn,
                      reward) :: [])) :: ((VZ pid) :: [])))))) s2
                in
                let id0 = Z.add s3.sub_count (Zpos XH) in
                let inact = Z.add s.now p.pl_duration in
                let sb = { sb_id = id0; sb_addr = acc; sb_inactive_at =
                  inact; sb_status = SActive; sb_status_at = s.now; sb_kind =
                  (KPlan (pid, dn)) }
                in
                rbind (int_mul gB p.pl_gb) (fun g ->
                  let al = { al_id = id0; al_addr = acc; al_granted = g;
                    al_used = Z0 }
                  in
                  let s4 =
                    set (fun s0 -> s0.allocs) (fun f ->
                      let g0 = fun r -> f r.allocs in
                      (fun x -> { cfg = x.cfg; bank = x.bank; supply =
                      x.supply; deposits = x.deposits; prov_act = x.prov_act;
                      prov_inact = x.prov_inact; node_act = x.node_act;
                      node_inact = x.node_inact; node_q = x.node_q;
                      node_plan = x.node_plan; plan_count = x.plan_count;
                      plan_act = x.plan_act; plan_inact = x.plan_inact;
                      plan_prov = x.plan_prov; sub_count = x.sub_count;
                      subs = x.subs; sub_q = x.sub_q; sub_acc = x.sub_acc;
                      sub_node = x.sub_node; sub_plan = x.sub_plan; allocs =
                      (g0 x); payouts = x.payouts; pay_q = x.pay_q; pay_acc =
                      x.pay_acc; pay_node = x.pay_node; pay_acc_node =
                      x.pay_acc_node; sess_count = x.sess_count; sessions =
                      x.sessions; sess_q = x.sess_q; sess_acc = x.sess_acc;
                      sess_node = x.sess_node; sess_sub = x.sess_sub;
                      sess_alloc = x.sess_alloc; pars = x.pars; modified =
                      x.modified; swaps = x.swaps; inflations = x.inflations;
                      mint_max = x.mint_max; mint_min = x.mint_min;
                      mint_rate = x.mint_rate; mint_inflation =
                      x.mint_inflation; now = x.now; events = x.events }))
                      (fun m ->
                      insert0
                        (map_insert
                          (gmap_partial_alter
                            (prod_eq_dec Coq_Z.eq_dec (list_eq_dec0 n_eq_dec))
                            (prod_countable Coq_Z.eq_dec z_countable
                              (list_eq_dec0 n_eq_dec)
                              (list_countable n_eq_dec n_countable)))) (id0,
                        acc) al m)
                      (set (fun s0 -> s0.sub_q) (fun f ->
                        let g0 = fun r -> f r.sub_q in
                        (fun x -> { cfg = x.cfg; bank = x.bank; supply =
                        x.supply; deposits = x.deposits; prov_act =
                        x.prov_act; prov_inact = x.prov_inact; node_act =
                        x.node_act; node_inact = x.node_inact; node_q =
                        x.node_q; node_plan = x.node_plan; plan_count =
                        x.plan_count; plan_act = x.plan_act; plan_inact =
                        x.plan_inact; plan_prov = x.plan_prov; sub_count =
                        x.sub_count; subs = x.subs; sub_q = (g0 x); sub_acc =
                        x.sub_acc; sub_node = x.sub_node; sub_plan =
                        x.sub_plan; allocs = x.allocs; payouts = x.payouts;
                        pay_q = x.pay_q; pay_acc = x.pay_acc; pay_node =
                        x.pay_node; pay_acc_node = x.pay_acc_node;
                        sess_count = x.sess_count; sessions = x.sessions;
                        sess_q = x.sess_q; sess_acc = x.sess_acc; sess_node =
                        x.sess_node; sess_sub = x.sess_sub; sess_alloc =
                        x.sess_alloc; pars = x.pars; modified = x.modified;
                        swaps = x.swaps; inflations = x.inflations;
                        mint_max = x.mint_max; mint_min = x.mint_min;
                        mint_rate = x.mint_rate; mint_inflation =
                        x.mint_inflation; now = x.now; events = x.events }))
                        (fun x ->
                        union0
                          (gset_union (prod_eq_dec Coq_Z.eq_dec Coq_Z.eq_dec)
                            (prod_countable Coq_Z.eq_dec z_countable
                              Coq_Z.eq_dec z_countable)) x
                          (singleton0
                            (gset_singleton
                              (prod_eq_dec Coq_Z.eq_dec Coq_Z.eq_dec)
                              (prod_countable Coq_Z.eq_dec z_countable
                                Coq_Z.eq_dec z_countable)) (inact, id0)))
                        (set (fun s0 -> s0.sub_plan) (fun f ->
                          let g0 = fun r -> f r.sub_plan in
                          (fun x -> { cfg = x.cfg; bank = x.bank; supply =
                          x.supply; deposits = x.deposits; prov_act =
                          x.prov_act; prov_inact = x.prov_inact; node_act =
                          x.node_act; node_inact = x.node_inact; node_q =
                          x.node_q; node_plan = x.node_plan; plan_count =
                          x.plan_count; plan_act = x.plan_act; plan_inact =
                          x.plan_inact; plan_prov = x.plan_prov; sub_count =
                          x.sub_count; subs = x.subs; sub_q = x.sub_q;
                          sub_acc = x.sub_acc; sub_node = x.sub_node;
                          sub_plan = (g0 x); allocs = x.allocs; payouts =
                          x.payouts; pay_q = x.pay_q; pay_acc = x.pay_acc;
                          pay_node = x.pay_node; pay_acc_node =
                          x.pay_acc_node; sess_count = x.sess_count;
                          sessions = x.sessions; sess_q = x.sess_q;
                          sess_acc = x.sess_acc; sess_node = x.sess_node;
                          sess_sub = x.sess_sub; sess_alloc = x.sess_alloc;
                          pars = x.pars; modified = x.modified; swaps =
                          x.swaps; inflations = x.inflations; mint_max =
                          x.mint_max; mint_min = x.mint_min; mint_rate =
                          x.mint_rate; mint_inflation = x.mint_inflation;
                          now = x.now; events = x.events })) (fun x ->
                          union0
                            (gset_union
                              (prod_eq_dec Coq_Z.eq_dec Coq_Z.eq_dec)
                              (prod_countable Coq_Z.eq_dec z_countable
                                Coq_Z.eq_dec z_countable)) x
                            (singleton0
                              (gset_singleton
                                (prod_eq_dec Coq_Z.eq_dec Coq_Z.eq_dec)
                                (prod_countable Coq_Z.eq_dec z_countable
                                  Coq_Z.eq_dec z_countable)) (pid, id0)))
                          (set (fun s0 -> s0.sub_acc) (fun f ->
                            let g0 = fun r -> f r.sub_acc in
                            (fun x -> { cfg = x.cfg; bank = x.bank; supply =
                            x.supply; deposits = x.deposits; prov_act =
                            x.prov_act; prov_inact = x.prov_inact; node_act =
                            x.node_act; node_inact = x.node_inact; node_q =
                            x.node_q; node_plan = x.node_plan; plan_count =
                            x.plan_count; plan_act = x.plan_act; plan_inact =
                            x.plan_inact; plan_prov = x.plan_prov;
                            sub_count = x.sub_count; subs = x.subs; sub_q =
                            x.sub_q; sub_acc = (g0 x); sub_node = x.sub_node;
                            sub_plan = x.sub_plan; allocs = x.allocs;
                            payouts = x.payouts; pay_q = x.pay_q; pay_acc =
                            x.pay_acc; pay_node = x.pay_node; pay_acc_node =
                            x.pay_acc_node; sess_count = x.sess_count;
                            sessions = x.sessions; sess_q = x.sess_q;
                            sess_acc = x.sess_acc; sess_node = x.sess_node;
                            sess_sub = x.sess_sub; sess_alloc = x.sess_alloc;
                            pars = x.pars; modified = x.modified; swaps =
                            x.swaps; inflations = x.inflations; mint_max =
                            x.mint_max; mint_min = x.mint_min; mint_rate =
                            x.mint_rate; mint_inflation = x.mint_inflation;
                            now = x.now; events = x.events })) (fun x ->
                            union0
                              (gset_union
                                (prod_eq_dec (list_eq_dec0 n_eq_dec)
                                  Coq_Z.eq_dec)
                                (prod_countable (list_eq_dec0 n_eq_dec)
                                  (list_countable n_eq_dec n_countable)
                                  Coq_Z.eq_dec z_countable)) x
                              (singleton0
                                (gset_singleton
                                  (prod_eq_dec (list_eq_dec0 n_eq_dec)
                                    Coq_Z.eq_dec)
                                  (prod_countable (list_eq_dec0 n_eq_dec)
                                    (list_countable n_eq_dec n_countable)
                                    Coq_Z.eq_dec z_countable)) (acc, id0)))
                            (set (fun s0 -> s0.subs) (fun f ->
                              let g0 = fun r -> f r.subs in
                              (fun x -> { cfg = x.cfg; bank = x.bank;
                              supply = x.supply; deposits = x.deposits;
                              prov_act = x.prov_act; prov_inact =
                              x.prov_inact; node_act = x.node_act;
                              node_inact = x.node_inact; node_q = x.node_q;
                              node_plan = x.node_plan; plan_count =
                              x.plan_count; plan_act = x.plan_act;
                              plan_inact = x.plan_inact; plan_prov =
                              x.plan_prov; sub_count = x.sub_count; subs =
                              (g0 x); sub_q = x.sub_q; sub_acc = x.sub_acc;
                              sub_node = x.sub_node; sub_plan = x.sub_plan;
                              allocs = x.allocs; payouts = x.payouts; pay_q =
                              x.pay_q; pay_acc = x.pay_acc; pay_node =
                              x.pay_node; pay_acc_node = x.pay_acc_node;
                              sess_count = x.sess_count; sessions =
                              x.sessions; sess_q = x.sess_q; sess_acc =
                              x.sess_acc; sess_node = x.sess_node; sess_sub =
                              x.sess_sub; sess_alloc = x.sess_alloc; pars =
                              x.pars; modified = x.modified; swaps = x.swaps;
                              inflations = x.inflations; mint_max =
                              x.mint_max; mint_min = x.mint_min; mint_rate =
                              x.mint_rate; mint_inflation = x.mint_inflation;
                              now = x.now; events = x.events })) (fun m ->
                              insert0
                                (map_insert
                                  (gmap_partial_alter Coq_Z.eq_dec
                                    z_countable)) id0 sb m)
                              (set (fun s0 -> s0.sub_count) (fun f ->
                                let z0 = fun r -> f r.sub_count in
                                (fun x -> { cfg = x.cfg; bank = x.bank;
                                supply = x.supply; deposits = x.deposits;
                                prov_act = x.prov_act; prov_inact =
                                x.prov_inact; node_act = x.node_act;
                                node_inact = x.node_inact; node_q = x.node_q;
                                node_plan = x.node_plan; plan_count =
                                x.plan_count; plan_act = x.plan_act;
                                plan_inact = x.plan_inact; plan_prov =
                                x.plan_prov; sub_count = (z0 x); subs =
                                x.subs; sub_q = x.sub_q; sub_acc = x.sub_acc;
                                sub_node = x.sub_node; sub_plan = x.sub_plan;
                                allocs = x.allocs; payouts = x.payouts;
                                pay_q = x.pay_q; pay_acc = x.pay_acc;
                                pay_node = x.pay_node; pay_acc_node =
                                x.pay_acc_node; sess_count = x.sess_count;
                                sessions = x.sessions; sess_q = x.sess_q;
                                sess_acc = x.sess_acc; sess_node =
                                x.sess_node; sess_sub = x.sess_sub;
                                sess_alloc = x.sess_alloc; pars = x.pars;
                                modified = x.modified; swaps = x.swaps;
                                inflations = x.inflations; mint_max =
                                x.mint_max; mint_min = x.mint_min;
                                mint_rate = x.mint_rate; mint_inflation =
                                x.mint_inflation; now = x.now; events =
                                x.events })) (fun _ -> id0) s3)))))
                  in
                  Ok
                  ((emit
                     (ev (String ((Ascii (true, true, false, false, true,
                       true, true, false)), (String ((Ascii (true, false,
                       true, false, true, true, true, false)), (String
                       ((Ascii (false, true, false, false, false, true, true,
                       false)), (String ((Ascii (true, true, false, false,
                       true, true, true, false)), (String ((Ascii (true,
                       true, false, false, false, true, true, false)),
                       (String ((Ascii (false, true, false, false, true,
                       true, true, false)), (String ((Ascii (true, false,
                       false, true, false, true, true, false)), (String
                       ((Ascii (false, false, false, false, true, true, true,
                       false)), (String ((Ascii (false, false, true, false,
                       true, true, true, false)), (String ((Ascii (true,
                       false, false, true, false, true, true, false)),
                       (String ((Ascii (true, true, true, true, false, true,
                       true, false)), (String ((Ascii (false, true, true,
                       true, false, true, true, false)), (String ((Ascii
                       (false, true, true, true, false, true, false, false)),
                       (String ((Ascii (true, false, true, false, false,
                       false, true, false)), (String ((Ascii (false, true,
                       true, false, true, true, true, false)), (String
                       ((Ascii (true, false, true, false, false, true, true,
                       false)), (String ((Ascii (false, true, true, true,
                       false, true, true, false)), (String ((Ascii (false,
                       false, true, false, true, true, true, false)), (String
                       ((Ascii (true, false, false, false, false, false,
                       true, false)), (String ((Ascii (false, false, true,
                       true, false, true, true, false)), (String ((Ascii
                       (false, false, true, true, false, true, true, false)),
                       (String ((Ascii (true, true, true, true, false, true,
                       true, false)), (String ((Ascii (true, true, false,
                       false, false, true, true, false)), (String ((Ascii
                       (true, false, false, false, false, true, true,
                       false)), (String ((Ascii (false, false, true, false,
                       true, true, true, false)), (String ((Ascii (true,
                       false, true, false, false, true, true, false)),
                       EmptyString))))))))))))))))))))))))))))))))))))))))))))))))))))
                       ((VT (canon RAcc acc)) :: ((VZ g) :: ((VZ Z0) :: ((VZ
                       id0) :: []))))) s4), id0))))))
      | None -> Err)
  | None -> Err

(** val h_plan_subscribe : state -> taddr -> z -> denom -> state res **)

let h_plan_subscribe s from pid dn =
  rbind (create_sub_for_plan s from.ta_bytes pid dn) (fun x ->
    let (s1, id0) = x in
    Ok
    (emit
      (ev (String ((Ascii (false, false, false, false, true, true, true,
        false)), (String ((Ascii (false, false, true, true, false, true,
        true, false)), (String ((Ascii (true, false, false, false, false,
        true, true, false)), (String ((Ascii (false, true, true, true, false,
        true, true, false)), (String ((Ascii (false, true, true, true, false,
        true, false, false)), (String ((Ascii (true, false, true, false,
        false, false, true, false)), (String ((Ascii (false, true, true,
        false, true, true, true, false)), (String ((Ascii (true, false, true,
        false, false, true, true, false)), (String ((Ascii (false, true,
        true, true, false, true, true, false)), (String ((Ascii (false,
        false, true, false, true, true, true, false)), (String ((Ascii (true,
        true, false, false, false, false, true, false)), (String ((Ascii
        (false, true, false, false, true, true, true, false)), (String
        ((Ascii (true, false, true, false, false, true, true, false)),
        (String ((Ascii (true, false, false, false, false, true, true,
        false)), (String ((Ascii (false, false, true, false, true, true,
        true, false)), (String ((Ascii (true, false, true, false, false,
        true, true, false)), (String ((Ascii (true, true, false, false, true,
        false, true, false)), (String ((Ascii (true, false, true, false,
        true, true, true, false)), (String ((Ascii (false, true, false,
        false, false, true, true, false)), (String ((Ascii (true, true,
        false, false, true, true, true, false)), (String ((Ascii (true, true,
        false, false, false, true, true, false)), (String ((Ascii (false,
        true, false, false, true, true, true, false)), (String ((Ascii (true,
        false, false, true, false, true, true, false)), (String ((Ascii
        (false, false, false, false, true, true, true, false)), (String
        ((Ascii (false, false, true, false, true, true, true, false)),
        (String ((Ascii (true, false, false, true, false, true, true,
        false)), (String ((Ascii (true, true, true, true, false, true, true,
        false)), (String ((Ascii (false, true, true, true, false, true, true,
        false)),
        EmptyString))))))))))))))))))))))))))))))))))))))))))))))))))))))))
        ((VT (canon RAcc from.ta_bytes)) :: ((VZ id0) :: ((VZ pid) :: []))))
      s1))

(** val session_make_pending : state -> session -> state **)

let session_make_pending s x =
  let t0 = Z.add s.now s.pars.p_sess_delay in
  let x' =
    set (fun s0 -> s0.ss_status_at) (fun f ->
      let t1 = fun r -> f r.ss_status_at in
      (fun x0 -> { ss_id = x0.ss_id; ss_sub = x0.ss_sub; ss_node =
      x0.ss_node; ss_addr = x0.ss_addr; ss_up = x0.ss_up; ss_down =
      x0.ss_down; ss_duration = x0.ss_duration; ss_inactive_at =
      x0.ss_inactive_at; ss_status = x0.ss_status; ss_status_at = (t1 x0) }))
      (fun _ -> s.now)
      (set (fun s0 -> s0.ss_status) (fun f ->
        let s0 = fun r -> f r.ss_status in
        (fun x0 -> { ss_id = x0.ss_id; ss_sub = x0.ss_sub; ss_node =
        x0.ss_node; ss_addr = x0.ss_addr; ss_up = x0.ss_up; ss_down =
        x0.ss_down; ss_duration = x0.ss_duration; ss_inactive_at =
        x0.ss_inactive_at; ss_status = (s0 x0); ss_status_at =
        x0.ss_status_at })) (fun _ -> SPending)
        (set (fun s0 -> s0.ss_inactive_at) (fun f ->
          let t1 = fun r -> f r.ss_inactive_at in
          (fun x0 -> { ss_id = x0.ss_id; ss_sub = x0.ss_sub; ss_node =
          x0.ss_node; ss_addr = x0.ss_addr; ss_up = x0.ss_up; ss_down =
          x0.ss_down; ss_duration = x0.ss_duration; ss_inactive_at = 
          (t1 x0); ss_status = x0.ss_status; ss_status_at = x0.ss_status_at }))
          (fun _ -> t0) x))
  in
  emit
    (ev (String ((Ascii (true, true, false, false, true, true, true, false)),
      (String ((Ascii (true, false, true, false, false, true, true, false)),
      (String ((Ascii (true, true, false, false, true, true, true, false)),
      (String ((Ascii (true, true, false, false, true, true, true, false)),
      (String ((Ascii (true, false, false, true, false, true, true, false)),
      (String ((Ascii (true, true, true, true, false, true, true, false)),
      (String ((Ascii (false, true, true, true, false, true, true, false)),
      (String ((Ascii (false, true, true, true, false, true, false, false)),
      (String ((Ascii (true, false, true, false, false, false, true, false)),
      (String ((Ascii (false, true, true, false, true, true, true, false)),
      (String ((Ascii (true, false, true, false, false, true, true, false)),
      (String ((Ascii (false, true, true, true, false, true, true, false)),
      (String ((Ascii (false, false, true, false, true, true, true, false)),
      (String ((Ascii (true, false, true, false, true, false, true, false)),
      (String ((Ascii (false, false, false, false, true, true, true, false)),
      (String ((Ascii (false, false, true, false, false, true, true, false)),
      (String ((Ascii (true, false, false, false, false, true, true, false)),
      (String ((Ascii (false, false, true, false, true, true, true, false)),
      (String ((Ascii (true, false, true, false, false, true, true, false)),
      (String ((Ascii (true, true, false, false, true, false, true, false)),
      (String ((Ascii (false, false, true, false, true, true, true, false)),
      (String ((Ascii (true, false, false, false, false, true, true, false)),
      (String ((Ascii (false, false, true, false, true, true, true, false)),
      (String ((Ascii (true, false, true, false, true, true, true, false)),
      (String ((Ascii (true, true, false, false, true, true, true, false)),
      EmptyString)))))))))))))))))))))))))))))))))))))))))))))))))) ((VS
      SPending) :: ((VT (canon RAcc x.ss_addr)) :: ((VT
      (canon RNode x.ss_node)) :: ((VZ x.ss_id) :: ((VZ x.ss_sub) :: []))))))
    (set (fun s0 -> s0.sessions) (fun f ->
      let g = fun r -> f r.sessions in
      (fun x0 -> { cfg = x0.cfg; bank = x0.bank; supply = x0.supply;
      deposits = x0.deposits; prov_act = x0.prov_act; prov_inact =
      x0.prov_inact; node_act = x0.node_act; node_inact = x0.node_inact;
      node_q = x0.node_q; node_plan = x0.node_plan; plan_count =
      x0.plan_count; plan_act = x0.plan_act; plan_inact = x0.plan_inact;
      plan_prov = x0.plan_prov; sub_count = x0.sub_count; subs = x0.subs;
      sub_q = x0.sub_q; sub_acc = x0.sub_acc; sub_node = x0.sub_node;
      sub_plan = x0.sub_plan; allocs = x0.allocs; payouts = x0.payouts;
      pay_q = x0.pay_q; pay_acc = x0.pay_acc; pay_node = x0.pay_node;
      pay_acc_node = x0.pay_acc_node; sess_count = x0.sess_count; sessions =
      (g x0); sess_q = x0.sess_q; sess_acc = x0.sess_acc; sess_node =
      x0.sess_node; sess_sub = x0.sess_sub; sess_alloc = x0.sess_alloc;
      pars = x0.pars; modified = x0.modified; swaps = x0.swaps; inflations =
      x0.inflations; mint_max = x0.mint_max; mint_min = x0.mint_min;
      mint_rate = x0.mint_rate; mint_inflation = x0.mint_inflation; now =
      x0.now; events = x0.events })) (fun m ->
      insert0 (map_insert (gmap_partial_alter Coq_Z.eq_dec z_countable))
        x.ss_id x' m)
      (set (fun s0 -> s0.sess_q) (fun f ->
        let g = fun r -> f r.sess_q in
        (fun x0 -> { cfg = x0.cfg; bank = x0.bank; supply = x0.supply;
        deposits = x0.deposits; prov_act = x0.prov_act; prov_inact =
        x0.prov_inact; node_act = x0.node_act; node_inact = x0.node_inact;
        node_q = x0.node_q; node_plan = x0.node_plan; plan_count =
        x0.plan_count; plan_act = x0.plan_act; plan_inact = x0.plan_inact;
        plan_prov = x0.plan_prov; sub_count = x0.sub_count; subs = x0.subs;
        sub_q = x0.sub_q; sub_acc = x0.sub_acc; sub_node = x0.sub_node;
        sub_plan = x0.sub_plan; allocs = x0.allocs; payouts = x0.payouts;
        pay_q = x0.pay_q; pay_acc = x0.pay_acc; pay_node = x0.pay_node;
        pay_acc_node = x0.pay_acc_node; sess_count = x0.sess_count;
        sessions = x0.sessions; sess_q = (g x0); sess_acc = x0.sess_acc;
        sess_node = x0.sess_node; sess_sub = x0.sess_sub; sess_alloc =
        x0.sess_alloc; pars = x0.pars; modified = x0.modified; swaps =
        x0.swaps; inflations = x0.inflations; mint_max = x0.mint_max;
        mint_min = x0.mint_min; mint_rate = x0.mint_rate; mint_inflation =
        x0.mint_inflation; now = x0.now; events = x0.events })) (fun q ->
        union0
          (gset_union (prod_eq_dec Coq_Z.eq_dec Coq_Z.eq_dec)
            (prod_countable Coq_Z.eq_dec z_countable Coq_Z.eq_dec z_countable))
          (difference0
            (gset_difference (prod_eq_dec Coq_Z.eq_dec Coq_Z.eq_dec)
              (prod_countable Coq_Z.eq_dec z_countable Coq_Z.eq_dec
                z_countable)) q
            (singleton0
              (gset_singleton (prod_eq_dec Coq_Z.eq_dec Coq_Z.eq_dec)
                (prod_countable Coq_Z.eq_dec z_countable Coq_Z.eq_dec
                  z_countable)) (x.ss_inactive_at, x.ss_id)))
          (singleton0
            (gset_singleton (prod_eq_dec Coq_Z.eq_dec Coq_Z.eq_dec)
              (prod_countable Coq_Z.eq_dec z_countable Coq_Z.eq_dec
                z_countable)) (t0, x.ss_id))) s))

(** val sub_pending_hook : state -> z -> state res **)

let sub_pending_hook s id0 =
  rfold (fun s0 sid ->
    match lookup0 (gmap_lookup Coq_Z.eq_dec z_countable) sid s0.sessions with
    | Some x ->
      if bool_decide (decide_rel status_eq_dec x.ss_status SActive)
      then Ok (session_make_pending s0 x)
      else Ok s0
    | None -> Panic) (rev1 (ids_for_z s.sess_sub id0)) s

(** val detach_payout : state -> subscription -> state res -> state res **)

let detach_payout s sb missing =
  match sb.sb_kind with
  | KNode (_, _, hours, _) ->
    if Z.eqb hours Z0
    then Ok s
    else (match lookup0 (gmap_lookup Coq_Z.eq_dec z_countable) sb.sb_id
                  s.payouts with
          | Some po ->
            Ok
              (set (fun s0 -> s0.payouts) (fun f ->
                let g = fun r -> f r.payouts in
                (fun x -> { cfg = x.cfg; bank = x.bank; supply = x.supply;
                deposits = x.deposits; prov_act = x.prov_act; prov_inact =
                x.prov_inact; node_act = x.node_act; node_inact =
                x.node_inact; node_q = x.node_q; node_plan = x.node_plan;
                plan_count = x.plan_count; plan_act = x.plan_act;
                plan_inact = x.plan_inact; plan_prov = x.plan_prov;
                sub_count = x.sub_count; subs = x.subs; sub_q = x.sub_q;
                sub_acc = x.sub_acc; sub_node = x.sub_node; sub_plan =
                x.sub_plan; allocs = x.allocs; payouts = (g x); pay_q =
                x.pay_q; pay_acc = x.pay_acc; pay_node = x.pay_node;
                pay_acc_node = x.pay_acc_node; sess_count = x.sess_count;
                sessions = x.sessions; sess_q = x.sess_q; sess_acc =
                x.sess_acc; sess_node = x.sess_node; sess_sub = x.sess_sub;
                sess_alloc = x.sess_alloc; pars = x.pars; modified =
                x.modified; swaps = x.swaps; inflations = x.inflations;
                mint_max = x.mint_max; mint_min = x.mint_min; mint_rate =
                x.mint_rate; mint_inflation = x.mint_inflation; now = x.now;
                events = x.events })) (fun m ->
                insert0
                  (map_insert (gmap_partial_alter Coq_Z.eq_dec z_countable))
                  po.po_id
                  (set (fun p -> p.po_next_at) (fun f ->
                    let t0 = fun r -> f r.po_next_at in
                    (fun x -> { po_id = x.po_id; po_addr = x.po_addr;
                    po_node = x.po_node; po_hours = x.po_hours; po_price =
                    x.po_price; po_next_at = (t0 x) })) (fun _ -> tzero) po) m)
                (set (fun s0 -> s0.pay_q) (fun f ->
                  let g = fun r -> f r.pay_q in
                  (fun x -> { cfg = x.cfg; bank = x.bank; supply = x.supply;
                  deposits = x.deposits; prov_act = x.prov_act; prov_inact =
                  x.prov_inact; node_act = x.node_act; node_inact =
                  x.node_inact; node_q = x.node_q; node_plan = x.node_plan;
                  plan_count = x.plan_count; plan_act = x.plan_act;
                  plan_inact = x.plan_inact; plan_prov = x.plan_prov;
                  sub_count = x.sub_count; subs = x.subs; sub_q = x.sub_q;
                  sub_acc = x.sub_acc; sub_node = x.sub_node; sub_plan =
                  x.sub_plan; allocs = x.allocs; payouts = x.payouts; pay_q =
                  (g x); pay_acc = x.pay_acc; pay_node = x.pay_node;
                  pay_acc_node = x.pay_acc_node; sess_count = x.sess_count;
                  sessions = x.sessions; sess_q = x.sess_q; sess_acc =
                  x.sess_acc; sess_node = x.sess_node; sess_sub = x.sess_sub;
                  sess_alloc = x.sess_alloc; pars = x.pars; modified =
                  x.modified; swaps = x.swaps; inflations = x.inflations;
                  mint_max = x.mint_max; mint_min = x.mint_min; mint_rate =
                  x.mint_rate; mint_inflation = x.mint_inflation; now =
                  x.now; events = x.events })) (fun x ->
                  difference0
                    (gset_difference (prod_eq_dec Coq_Z.eq_dec Coq_Z.eq_dec)
                      (prod_countable Coq_Z.eq_dec z_countable Coq_Z.eq_dec
                        z_countable)) x
                    (singleton0
                      (gset_singleton (prod_eq_dec Coq_Z.eq_dec Coq_Z.eq_dec)
                        (prod_countable Coq_Z.eq_dec z_countable Coq_Z.eq_dec
                          z_countable)) (po.po_next_at, po.po_id)))
                  (set (fun s0 -> s0.pay_acc_node) (fun f ->
                    let g = fun r -> f r.pay_acc_node in
                    (fun x -> { cfg = x.cfg; bank = x.bank; supply =
                    x.supply; deposits = x.deposits; prov_act = x.prov_act;
                    prov_inact = x.prov_inact; node_act = x.node_act;
                    node_inact = x.node_inact; node_q = x.node_q; node_plan =
                    x.node_plan; plan_count = x.plan_count; plan_act =
                    x.plan_act; plan_inact = x.plan_inact; plan_prov =
                    x.plan_prov; sub_count = x.sub_count; subs = x.subs;
                    sub_q = x.sub_q; sub_acc = x.sub_acc; sub_node =
                    x.sub_node; sub_plan = x.sub_plan; allocs = x.allocs;
                    payouts = x.payouts; pay_q = x.pay_q; pay_acc =
                    x.pay_acc; pay_node = x.pay_node; pay_acc_node = 
                    (g x); sess_count = x.sess_count; sessions = x.sessions;
                    sess_q = x.sess_q; sess_acc = x.sess_acc; sess_node =
                    x.sess_node; sess_sub = x.sess_sub; sess_alloc =
                    x.sess_alloc; pars = x.pars; modified = x.modified;
                    swaps = x.swaps; inflations = x.inflations; mint_max =
                    x.mint_max; mint_min = x.mint_min; mint_rate =
                    x.mint_rate; mint_inflation = x.mint_inflation; now =
                    x.now; events = x.events })) (fun x ->
                    difference0
                      (gset_difference
                        (prod_eq_dec
                          (prod_eq_dec (list_eq_dec0 n_eq_dec)
                            (list_eq_dec0 n_eq_dec)) Coq_Z.eq_dec)
                        (prod_countable
                          (prod_eq_dec (list_eq_dec0 n_eq_dec)
                            (list_eq_dec0 n_eq_dec))
                          (prod_countable (list_eq_dec0 n_eq_dec)
                            (list_countable n_eq_dec n_countable)
                            (list_eq_dec0 n_eq_dec)
                            (list_countable n_eq_dec n_countable))
                          Coq_Z.eq_dec z_countable)) x
                      (singleton0
                        (gset_singleton
                          (prod_eq_dec
                            (prod_eq_dec (list_eq_dec0 n_eq_dec)
                              (list_eq_dec0 n_eq_dec)) Coq_Z.eq_dec)
                          (prod_countable
                            (prod_eq_dec (list_eq_dec0 n_eq_dec)
                              (list_eq_dec0 n_eq_dec))
                            (prod_countable (list_eq_dec0 n_eq_dec)
                              (list_countable n_eq_dec n_countable)
                              (list_eq_dec0 n_eq_dec)
                              (list_countable n_eq_dec n_countable))
                            Coq_Z.eq_dec z_countable)) ((po.po_addr,
                        po.po_node), po.po_id))) s)))
          | None -> missing)
  | KPlan (_, _) -> Ok s

(** val sub_make_pending : state -> subscription -> state **)

let sub_make_pending s sb =
  let t0 = Z.add s.now s.pars.p_sub_delay in
  let sb' =
    set (fun s0 -> s0.sb_status_at) (fun f ->
      let t1 = fun r -> f r.sb_status_at in
      (fun x -> { sb_id = x.sb_id; sb_addr = x.sb_addr; sb_inactive_at =
      x.sb_inactive_at; sb_status = x.sb_status; sb_status_at = (t1 x);
      sb_kind = x.sb_kind })) (fun _ -> s.now)
      (set (fun s0 -> s0.sb_status) (fun f ->
        let s0 = fun r -> f r.sb_status in
        (fun x -> { sb_id = x.sb_id; sb_addr = x.sb_addr; sb_inactive_at =
        x.sb_inactive_at; sb_status = (s0 x); sb_status_at = x.sb_status_at;
        sb_kind = x.sb_kind })) (fun _ -> SPending)
        (set (fun s0 -> s0.sb_inactive_at) (fun f ->
          let t1 = fun r -> f r.sb_inactive_at in
          (fun x -> { sb_id = x.sb_id; sb_addr = x.sb_addr; sb_inactive_at =
          (t1 x); sb_status = x.sb_status; sb_status_at = x.sb_status_at;
          sb_kind = x.sb_kind })) (fun _ -> t0) sb))
  in
  emit
    (ev (String ((Ascii (true, true, false, false, true, true, true, false)),
      (String ((Ascii (true, false, true, false, true, true, true, false)),
      (String ((Ascii (false, true, false, false, false, true, true, false)),
      (String ((Ascii (true, true, false, false, true, true, true, false)),
      (String ((Ascii (true, true, false, false, false, true, true, false)),
      (String ((Ascii (false, true, false, false, true, true, true, false)),
      (String ((Ascii (true, false, false, true, false, true, true, false)),
      (String ((Ascii (false, false, false, false, true, true, true, false)),
      (String ((Ascii (false, false, true, false, true, true, true, false)),
      (String ((Ascii (true, false, false, true, false, true, true, false)),
      (String ((Ascii (true, true, true, true, false, true, true, false)),
      (String ((Ascii (false, true, true, true, false, true, true, false)),
      (String ((Ascii (false, true, true, true, false, true, false, false)),
      (String ((Ascii (true, false, true, false, false, false, true, false)),
      (String ((Ascii (false, true, true, false, true, true, true, false)),
      (String ((Ascii (true, false, true, false, false, true, true, false)),
      (String ((Ascii (false, true, true, true, false, true, true, false)),
      (String ((Ascii (false, false, true, false, true, true, true, false)),
      (String ((Ascii (true, false, true, false, true, false, true, false)),
      (String ((Ascii (false, false, false, false, true, true, true, false)),
      (String ((Ascii (false, false, true, false, false, true, true, false)),
      (String ((Ascii (true, false, false, false, false, true, true, false)),
      (String ((Ascii (false, false, true, false, true, true, true, false)),
      (String ((Ascii (true, false, true, false, false, true, true, false)),
      (String ((Ascii (true, true, false, false, true, false, true, false)),
      (String ((Ascii (false, false, true, false, true, true, true, false)),
      (String ((Ascii (true, false, false, false, false, true, true, false)),
      (String ((Ascii (false, false, true, false, true, true, true, false)),
      (String ((Ascii (true, false, true, false, true, true, true, false)),
      (String ((Ascii (true, true, false, false, true, true, true, false)),
      EmptyString))))))))))))))))))))))))))))))))))))))))))))))))))))))))))))
      ((VS SPending) :: ((VT (canon RAcc sb.sb_addr)) :: ((VZ
      sb.sb_id) :: []))))
    (set (fun s0 -> s0.sub_q) (fun f ->
      let g = fun r -> f r.sub_q in
      (fun x -> { cfg = x.cfg; bank = x.bank; supply = x.supply; deposits =
      x.deposits; prov_act = x.prov_act; prov_inact = x.prov_inact;
      node_act = x.node_act; node_inact = x.node_inact; node_q = x.node_q;
      node_plan = x.node_plan; plan_count = x.plan_count; plan_act =
      x.plan_act; plan_inact = x.plan_inact; plan_prov = x.plan_prov;
      sub_count = x.sub_count; subs = x.subs; sub_q = (g x); sub_acc =
      x.sub_acc; sub_node = x.sub_node; sub_plan = x.sub_plan; allocs =
      x.allocs; payouts = x.payouts; pay_q = x.pay_q; pay_acc = x.pay_acc;
      pay_node = x.pay_node; pay_acc_node = x.pay_acc_node; sess_count =
      x.sess_count; sessions = x.sessions; sess_q = x.sess_q; sess_acc =
      x.sess_acc; sess_node = x.sess_node; sess_sub = x.sess_sub;
      sess_alloc = x.sess_alloc; pars = x.pars; modified = x.modified;
      swaps = x.swaps; inflations = x.inflations; mint_max = x.mint_max;
      mint_min = x.mint_min; mint_rate = x.mint_rate; mint_inflation =
      x.mint_inflation; now = x.now; events = x.events })) (fun q ->
      union0
        (gset_union (prod_eq_dec Coq_Z.eq_dec Coq_Z.eq_dec)
          (prod_countable Coq_Z.eq_dec z_countable Coq_Z.eq_dec z_countable))
        q
        (singleton0
          (gset_singleton (prod_eq_dec Coq_Z.eq_dec Coq_Z.eq_dec)
            (prod_countable Coq_Z.eq_dec z_countable Coq_Z.eq_dec z_countable))
          (t0, sb.sb_id)))
      (set (fun s0 -> s0.subs) (fun f ->
        let g = fun r -> f r.subs in
        (fun x -> { cfg = x.cfg; bank = x.bank; supply = x.supply; deposits =
        x.deposits; prov_act = x.prov_act; prov_inact = x.prov_inact;
        node_act = x.node_act; node_inact = x.node_inact; node_q = x.node_q;
        node_plan = x.node_plan; plan_count = x.plan_count; plan_act =
        x.plan_act; plan_inact = x.plan_inact; plan_prov = x.plan_prov;
        sub_count = x.sub_count; subs = (g x); sub_q = x.sub_q; sub_acc =
        x.sub_acc; sub_node = x.sub_node; sub_plan = x.sub_plan; allocs =
        x.allocs; payouts = x.payouts; pay_q = x.pay_q; pay_acc = x.pay_acc;
        pay_node = x.pay_node; pay_acc_node = x.pay_acc_node; sess_count =
        x.sess_count; sessions = x.sessions; sess_q = x.sess_q; sess_acc =
        x.sess_acc; sess_node = x.sess_node; sess_sub = x.sess_sub;
        sess_alloc = x.sess_alloc; pars = x.pars; modified = x.modified;
        swaps = x.swaps; inflations = x.inflations; mint_max = x.mint_max;
        mint_min = x.mint_min; mint_rate = x.mint_rate; mint_inflation =
        x.mint_inflation; now = x.now; events = x.events })) (fun m ->
        insert0 (map_insert (gmap_partial_alter Coq_Z.eq_dec z_countable))
          sb.sb_id sb' m) s))

(** val h_sub_cancel : state -> taddr -> z -> state res **)

let h_sub_cancel s from id0 =
  match lookup0 (gmap_lookup Coq_Z.eq_dec z_countable) id0 s.subs with
  | Some sb ->
    rbind
      (ensure (bool_decide (decide_rel status_eq_dec sb.sb_status SActive)))
      (fun _ ->
      rbind
        (ensure
          (bool_decide
            (decide_rel (list_eq_dec0 n_eq_dec) from.ta_bytes sb.sb_addr)))
        (fun _ ->
        let s1 =
          set (fun s0 -> s0.sub_q) (fun f ->
            let g = fun r -> f r.sub_q in
            (fun x -> { cfg = x.cfg; bank = x.bank; supply = x.supply;
            deposits = x.deposits; prov_act = x.prov_act; prov_inact =
            x.prov_inact; node_act = x.node_act; node_inact = x.node_inact;
            node_q = x.node_q; node_plan = x.node_plan; plan_count =
            x.plan_count; plan_act = x.plan_act; plan_inact = x.plan_inact;
            plan_prov = x.plan_prov; sub_count = x.sub_count; subs = x.subs;
            sub_q = (g x); sub_acc = x.sub_acc; sub_node = x.sub_node;
            sub_plan = x.sub_plan; allocs = x.allocs; payouts = x.payouts;
            pay_q = x.pay_q; pay_acc = x.pay_acc; pay_node = x.pay_node;
            pay_acc_node = x.pay_acc_node; sess_count = x.sess_count;
            sessions = x.sessions; sess_q = x.sess_q; sess_acc = x.sess_acc;
            sess_node = x.sess_node; sess_sub = x.sess_sub; sess_alloc =
            x.sess_alloc; pars = x.pars; modified = x.modified; swaps =
            x.swaps; inflations = x.inflations; mint_max = x.mint_max;
            mint_min = x.mint_min; mint_rate = x.mint_rate; mint_inflation =
            x.mint_inflation; now = x.now; events = x.events })) (fun q ->
            difference0
              (gset_difference (prod_eq_dec Coq_Z.eq_dec Coq_Z.eq_dec)
                (prod_countable Coq_Z.eq_dec z_countable Coq_Z.eq_dec
                  z_countable)) q
              (singleton0
                (gset_singleton (prod_eq_dec Coq_Z.eq_dec Coq_Z.eq_dec)
                  (prod_countable Coq_Z.eq_dec z_countable Coq_Z.eq_dec
                    z_countable)) (sb.sb_inactive_at, id0))) s
        in
        rbind (sub_pending_hook s1 id0) (fun s2 ->
          let s3 = sub_make_pending s2 sb in detach_payout s3 sb Err)))
  | None -> Err

(** val h_sub_allocate : state -> taddr -> z -> taddr -> z -> state res **)

let h_sub_allocate s from id0 to0 bytes =
  match lookup0 (gmap_lookup Coq_Z.eq_dec z_countable) id0 s.subs with
  | Some sb ->
    rbind
      (ensure
        (match sb.sb_kind with
         | KNode (_, _, _, _) -> false
         | KPlan (_, _) -> true)) (fun _ ->
      let fa = from.ta_bytes in
      rbind
        (ensure
          (bool_decide (decide_rel (list_eq_dec0 n_eq_dec) fa sb.sb_addr)))
        (fun _ ->
        match lookup0
                (gmap_lookup
                  (prod_eq_dec Coq_Z.eq_dec (list_eq_dec0 n_eq_dec))
                  (prod_countable Coq_Z.eq_dec z_countable
                    (list_eq_dec0 n_eq_dec)
                    (list_countable n_eq_dec n_countable))) (id0, fa) s.allocs with
        | Some fal ->
          let ta = to0.ta_bytes in
          rbind
            (ensure
              (negb (bool_decide (decide_rel (list_eq_dec0 n_eq_dec) fa ta))))
            (fun _ ->
            match lookup0
                    (gmap_lookup
                      (prod_eq_dec Coq_Z.eq_dec (list_eq_dec0 n_eq_dec))
                      (prod_countable Coq_Z.eq_dec z_countable
                        (list_eq_dec0 n_eq_dec)
                        (list_countable n_eq_dec n_countable))) (id0, ta)
                    s.allocs with
            | Some tal ->
              rbind (int_add fal.al_granted tal.al_granted) (fun granted ->
                rbind (int_add fal.al_used tal.al_used) (fun utilised ->
                  rbind (int_sub granted utilised) (fun available ->
                    rbind (ensure (negb (Z.ltb available bytes))) (fun _ ->
                      rbind (int_sub granted bytes) (fun fg ->
                        rbind (ensure (negb (Z.ltb fg fal.al_used)))
                          (fun _ ->
                          let fal' =
                            set (fun a -> a.al_granted) (fun f ->
                              let z0 = fun r -> f r.al_granted in
                              (fun x -> { al_id = x.al_id; al_addr =
                              x.al_addr; al_granted = (z0 x); al_used =
                              x.al_used })) (fun _ -> fg) fal
                          in
                          let s2 =
                            emit
                              (ev (String ((Ascii (true, true, false, false,
                                true, true, true, false)), (String ((Ascii
                                (true, false, true, false, true, true, true,
                                false)), (String ((Ascii (false, true, false,
                                false, false, true, true, false)), (String
                                ((Ascii (true, true, false, false, true,
                                true, true, false)), (String ((Ascii (true,
                                true, false, false, false, true, true,
                                false)), (String ((Ascii (false, true, false,
                                false, true, true, true, false)), (String
                                ((Ascii (true, false, false, true, false,
                                true, true, false)), (String ((Ascii (false,
                                false, false, false, true, true, true,
                                false)), (String ((Ascii (false, false, true,
                                false, true, true, true, false)), (String
                                ((Ascii (true, false, false, true, false,
                                true, true, false)), (String ((Ascii (true,
                                true, true, true, false, true, true, false)),
                                (String ((Ascii (false, true, true, true,
                                false, true, true, false)), (String ((Ascii
                                (false, true, true, true, false, true, false,
                                false)), (String ((Ascii (true, false, true,
                                false, false, false, true, false)), (String
                                ((Ascii (false, true, true, false, true,
                                true, true, false)), (String ((Ascii (true,
                                false, true, false, false, true, true,
                                false)), (String ((Ascii (false, true, true,
                                true, false, true, true, false)), (String
                                ((Ascii (false, false, true, false, true,
                                true, true, false)), (String ((Ascii (true,
                                false, false, false, false, false, true,
                                false)), (String ((Ascii (false, false, true,
                                true, false, true, true, false)), (String
                                ((Ascii (false, false, true, true, false,
                                true, true, false)), (String ((Ascii (true,
                                true, true, true, false, true, true, false)),
                                (String ((Ascii (true, true, false, false,
                                false, true, true, false)), (String ((Ascii
                                (true, false, false, false, false, true,
                                true, false)), (String ((Ascii (false, false,
                                true, false, true, true, true, false)),
                                (String ((Ascii (true, false, true, false,
                                false, true, true, false)),
                                EmptyString))))))))))))))))))))))))))))))))))))))))))))))))))))
                                ((VT (canon RAcc fa)) :: ((VZ fg) :: ((VZ
                                fal.al_used) :: ((VZ id0) :: [])))))
                              (set (fun s0 -> s0.allocs) (fun f ->
                                let g = fun r -> f r.allocs in
                                (fun x -> { cfg = x.cfg; bank = x.bank;
                                supply = x.supply; deposits = x.deposits;
                                prov_act = x.prov_act; prov_inact =
                                x.prov_inact; node_act = x.node_act;
                                node_inact = x.node_inact; node_q = x.node_q;
                                node_plan = x.node_plan; plan_count =
                                x.plan_count; plan_act = x.plan_act;
                                plan_inact = x.plan_inact; plan_prov =
                                x.plan_prov; sub_count = x.sub_count; subs =
                                x.subs; sub_q = x.sub_q; sub_acc = x.sub_acc;
                                sub_node = x.sub_node; sub_plan = x.sub_plan;
                                allocs = (g x); payouts = x.payouts; pay_q =
                                x.pay_q; pay_acc = x.pay_acc; pay_node =
                                x.pay_node; pay_acc_node = x.pay_acc_node;
                                sess_count = x.sess_count; sessions =
                                x.sessions; sess_q = x.sess_q; sess_acc =
                                x.sess_acc; sess_node = x.sess_node;
                                sess_sub = x.sess_sub; sess_alloc =
                                x.sess_alloc; pars = x.pars; modified =
                                x.modified; swaps = x.swaps; inflations =
                                x.inflations; mint_max = x.mint_max;
                                mint_min = x.mint_min; mint_rate =
                                x.mint_rate; mint_inflation =
                                x.mint_inflation; now = x.now; events =
                                x.events })) (fun m ->
                                insert0
                                  (map_insert
                                    (gmap_partial_alter
                                      (prod_eq_dec Coq_Z.eq_dec
                                        (list_eq_dec0 n_eq_dec))
                                      (prod_countable Coq_Z.eq_dec
                                        z_countable (list_eq_dec0 n_eq_dec)
                                        (list_countable n_eq_dec n_countable))))
                                  (id0, fa) fal' m) s)
                          in
                          rbind (ensure (negb (Z.ltb bytes tal.al_used)))
                            (fun _ ->
                            let tal' =
                              set (fun a -> a.al_granted) (fun f ->
                                let z0 = fun r -> f r.al_granted in
                                (fun x -> { al_id = x.al_id; al_addr =
                                x.al_addr; al_granted = (z0 x); al_used =
                                x.al_used })) (fun _ -> bytes) tal
                            in
                            Ok
                            (emit
                              (ev (String ((Ascii (true, true, false, false,
                                true, true, true, false)), (String ((Ascii
                                (true, false, true, false, true, true, true,
                                false)), (String ((Ascii (false, true, false,
                                false, false, true, true, false)), (String
                                ((Ascii (true, true, false, false, true,
                                true, true, false)), (String ((Ascii (true,
                                true, false, false, false, true, true,
                                false)), (String ((Ascii (false, true, false,
                                false, true, true, true, false)), (String
                                ((Ascii (true, false, false, true, false,
                                true, true, false)), (String ((Ascii (false,
                                false, false, false, true, true, true,
                                false)), (String ((Ascii (false, false, true,
                                false, true, true, true, false)), (String
                                ((Ascii (true, false, false, true, false,
                                true, true, false)), (String ((Ascii (true,
                                true, true, true, false, true, true, false)),
                                (String ((Ascii (false, true, true, true,
                                false, true, true, false)), (String ((Ascii
                                (false, true, true, true, false, true, false,
                                false)), (String ((Ascii (true, false, true,
                                false, false, false, true, false)), (String
                                ((Ascii (false, true, true, false, true,
                                true, true, false)), (String ((Ascii (true,
                                false, true, false, false, true, true,
                                false)), (String ((Ascii (false, true, true,
                                true, false, true, true, false)), (String
                                ((Ascii (false, false, true, false, true,
                                true, true, false)), (String ((Ascii (true,
                                false, false, false, false, false, true,
                                false)), (String ((Ascii (false, false, true,
                                true, false, true, true, false)), (String
                                ((Ascii (false, false, true, true, false,
                                true, true, false)), (String ((Ascii (true,
                                true, true, true, false, true, true, false)),
                                (String ((Ascii (true, true, false, false,
                                false, true, true, false)), (String ((Ascii
                                (true, false, false, false, false, true,
                                true, false)), (String ((Ascii (false, false,
                                true, false, true, true, true, false)),
                                (String ((Ascii (true, false, true, false,
                                false, true, true, false)),
                                EmptyString))))))))))))))))))))))))))))))))))))))))))))))))))))
                                ((VT (canon RAcc ta)) :: ((VZ bytes) :: ((VZ
                                tal.al_used) :: ((VZ id0) :: [])))))
                              (set (fun s0 -> s0.allocs) (fun f ->
                                let g = fun r -> f r.allocs in
                                (fun x -> { cfg = x.cfg; bank = x.bank;
                                supply = x.supply; deposits = x.deposits;
                                prov_act = x.prov_act; prov_inact =
                                x.prov_inact; node_act = x.node_act;
                                node_inact = x.node_inact; node_q = x.node_q;
                                node_plan = x.node_plan; plan_count =
                                x.plan_count; plan_act = x.plan_act;
                                plan_inact = x.plan_inact; plan_prov =
                                x.plan_prov; sub_count = x.sub_count; subs =
                                x.subs; sub_q = x.sub_q; sub_acc = x.sub_acc;
                                sub_node = x.sub_node; sub_plan = x.sub_plan;
                                allocs = (g x); payouts = x.payouts; pay_q =
                                x.pay_q; pay_acc = x.pay_acc; pay_node =
                                x.pay_node; pay_acc_node = x.pay_acc_node;
                                sess_count = x.sess_count; sessions =
                                x.sessions; sess_q = x.sess_q; sess_acc =
                                x.sess_acc; sess_node = x.sess_node;
                                sess_sub = x.sess_sub; sess_alloc =
                                x.sess_alloc; pars = x.pars; modified =
                                x.modified; swaps = x.swaps; inflations =
                                x.inflations; mint_max = x.mint_max;
                                mint_min = x.mint_min; mint_rate =
                                x.mint_rate; mint_inflation =
                                x.mint_inflation; now = x.now; events =
                                x.events })) (fun m ->
                                insert0
                                  (map_insert
                                    (gmap_partial_alter
                                      (prod_eq_dec Coq_Z.eq_dec
                                        (list_eq_dec0 n_eq_dec))
                                      (prod_countable Coq_Z.eq_dec
                                        z_countable (list_eq_dec0 n_eq_dec)
                                        (list_countable n_eq_dec n_countable))))
                                  (id0, ta) tal' m) s2)))))))))
            | None ->
              let s1 =
                set (fun s0 -> s0.sub_acc) (fun f ->
                  let g = fun r -> f r.sub_acc in
                  (fun x -> { cfg = x.cfg; bank = x.bank; supply = x.supply;
                  deposits = x.deposits; prov_act = x.prov_act; prov_inact =
                  x.prov_inact; node_act = x.node_act; node_inact =
                  x.node_inact; node_q = x.node_q; node_plan = x.node_plan;
                  plan_count = x.plan_count; plan_act = x.plan_act;
                  plan_inact = x.plan_inact; plan_prov = x.plan_prov;
                  sub_count = x.sub_count; subs = x.subs; sub_q = x.sub_q;
                  sub_acc = (g x); sub_node = x.sub_node; sub_plan =
                  x.sub_plan; allocs = x.allocs; payouts = x.payouts; pay_q =
                  x.pay_q; pay_acc = x.pay_acc; pay_node = x.pay_node;
                  pay_acc_node = x.pay_acc_node; sess_count = x.sess_count;
                  sessions = x.sessions; sess_q = x.sess_q; sess_acc =
                  x.sess_acc; sess_node = x.sess_node; sess_sub = x.sess_sub;
                  sess_alloc = x.sess_alloc; pars = x.pars; modified =
                  x.modified; swaps = x.swaps; inflations = x.inflations;
                  mint_max = x.mint_max; mint_min = x.mint_min; mint_rate =
                  x.mint_rate; mint_inflation = x.mint_inflation; now =
                  x.now; events = x.events })) (fun x ->
                  union0
                    (gset_union
                      (prod_eq_dec (list_eq_dec0 n_eq_dec) Coq_Z.eq_dec)
                      (prod_countable (list_eq_dec0 n_eq_dec)
                        (list_countable n_eq_dec n_countable) Coq_Z.eq_dec
                        z_countable)) x
                    (singleton0
                      (gset_singleton
                        (prod_eq_dec (list_eq_dec0 n_eq_dec) Coq_Z.eq_dec)
                        (prod_countable (list_eq_dec0 n_eq_dec)
                          (list_countable n_eq_dec n_countable) Coq_Z.eq_dec
                          z_countable)) (ta, id0))) s
              in
              let tal = { al_id = id0; al_addr = ta; al_granted = Z0;
                al_used = Z0 }
              in
              rbind (int_add fal.al_granted tal.al_granted) (fun granted ->
                rbind (int_add fal.al_used tal.al_used) (fun utilised ->
                  rbind (int_sub granted utilised) (fun available ->
                    rbind (ensure (negb (Z.ltb available bytes))) (fun _ ->
                      rbind (int_sub granted bytes) (fun fg ->
                        rbind (ensure (negb (Z.ltb fg fal.al_used)))
                          (fun _ ->
                          let fal' =
                            set (fun a -> a.al_granted) (fun f ->
                              let z0 = fun r -> f r.al_granted in
                              (fun x -> { al_id = x.al_id; al_addr =
                              x.al_addr; al_granted = (z0 x); al_used =
                              x.al_used })) (fun _ -> fg) fal
                          in
                          let s2 =
                            emit
                              (ev (String ((Ascii (true, true, false, false,
                                true, true, true, false)), (String ((Ascii
                                (true, false, true, false, true, true, true,
                                false)), (String ((Ascii (false, true, false,
                                false, false, true, true, false)), (String
                                ((Ascii (true, true, false, false, true,
                                true, true, false)), (String ((Ascii (true,
                                true, false, false, false, true, true,
                                false)), (String ((Ascii (false, true, false,
                                false, true, true, true, false)), (String
                                ((Ascii (true, false, false, true, false,
                                true, true, false)), (String ((Ascii (false,
                                false, false, false, true, true, true,
                                false)), (String ((Ascii (false, false, true,
                                false, true, true, true, false)), (String
                                ((Ascii (true, false, false, true, false,
                                true, true, false)), (String ((Ascii (true,
                                true, true, true, false, true, true, false)),
                                (String ((Ascii (false, true, true, true,
                                false, true, true, false)), (String ((Ascii
                                (false, true, true, true, false, true, false,
                                false)), (String ((Ascii (true, false, true,
                                false, false, false, true, false)), (String
                                ((Ascii (false, true, true, false, true,
                                true, true, false)), (String ((Ascii (true,
                                false, true, false, false, true, true,
                                false)), (String ((Ascii (false, true, true,
                                true, false, true, true, false)), (String
                                ((Ascii (false, false, true, false, true,
                                true, true, false)), (String ((Ascii (true,
                                false, false, false, false, false, true,
                                false)), (String ((Ascii (false, false, true,
                                true, false, true, true, false)), (String
                                ((Ascii (false, false, true, true, false,
                                true, true, false)), (String ((Ascii (true,
                                true, true, true, false, true, true, false)),
                                (String ((Ascii (true, true, false, false,
                                false, true, true, false)), (String ((Ascii
                                (true, false, false, false, false, true,
                                true, false)), (String ((Ascii (false, false,
                                true, false, true, true, true, false)),
                                (String ((Ascii (true, false, true, false,
                                false, true, true, false)),
                                EmptyString))))))))))))))))))))))))))))))))))))))))))))))))))))
                                ((VT (canon RAcc fa)) :: ((VZ fg) :: ((VZ
                                fal.al_used) :: ((VZ id0) :: [])))))
                              (set (fun s0 -> s0.allocs) (fun f ->
                                let g = fun r -> f r.allocs in
                                (fun x -> { cfg = x.cfg; bank = x.bank;
                                supply = x.supply; deposits = x.deposits;
                                prov_act = x.prov_act; prov_inact =
                                x.prov_inact; node_act = x.node_act;
                                node_inact = x.node_inact; node_q = x.node_q;
                                node_plan = x.node_plan; plan_count =
                                x.plan_count; plan_act = x.plan_act;
                                plan_inact = x.plan_inact; plan_prov =
                                x.plan_prov; sub_count = x.sub_count; subs =
                                x.subs; sub_q = x.sub_q; sub_acc = x.sub_acc;
                                sub_node = x.sub_node; sub_plan = x.sub_plan;
                                allocs = (g x); payouts = x.payouts; pay_q =
                                x.pay_q; pay_acc = x.pay_acc; pay_node =
                                x.pay_node; pay_acc_node = x.pay_acc_node;
                                sess_count = x.sess_count; sessions =
                                x.sessions; sess_q = x.sess_q; sess_acc =
                                x.sess_acc; sess_node = x.sess_node;
                                sess_sub = x.sess_sub; sess_alloc =
                                x.sess_alloc; pars = x.pars; modified =
                                x.modified; swaps = x.swaps; inflations =
                                x.inflations; mint_max = x.mint_max;
                                mint_min = x.mint_min; mint_rate =
                                x.mint_rate; mint_inflation =
                                x.mint_inflation; now = x.now; events =
                                x.events })) (fun m ->
                                insert0
                                  (map_insert
                                    (gmap_partial_alter
                                      (prod_eq_dec Coq_Z.eq_dec
                                        (list_eq_dec0 n_eq_dec))
                                      (prod_countable Coq_Z.eq_dec
                                        z_countable (list_eq_dec0 n_eq_dec)
                                        (list_countable n_eq_dec n_countable))))
                                  (id0, fa) fal' m) s1)
                          in
                          rbind (ensure (negb (Z.ltb bytes tal.al_used)))
                            (fun _ ->
                            let tal' =
                              set (fun a -> a.al_granted) (fun f ->
                                let z0 = fun r -> f r.al_granted in
                                (fun x -> { al_id = x.al_id; al_addr =
                                x.al_addr; al_granted = (z0 x); al_used =
                                x.al_used })) (fun _ -> bytes) tal
                            in
                            Ok
                            (emit
                              (ev (String ((Ascii (true, true, false, false,
                                true, true, true, false)), (String ((Ascii
                                (true, false, true, false, true, true, true,
                                false)), (String ((Ascii (false, true, false,
                                false, false, true, true, false)), (String
                                ((Ascii (true, true, false, false, true,
                                true, true, false)), (String ((Ascii (true,
                                true, false, false, false, true, true,
                                false)), (String ((Ascii (false, true, false,
                                false, true, true, true, false)), (String
                                ((Ascii (true, false, false, true, false,
                                true, true, false)), (String ((Ascii (false,
                                false, false, false, true, true, true,
                                false)), (String ((Ascii (false, false, true,
                                false, true, true, true, false)), (String
                                ((Ascii (true, false, false, true, false,
                                true, true, false)), (String ((Ascii (true,
                                true, true, true, false, true, true, false)),
                                (String ((Ascii (false, true, true, true,
                                false, true, true, false)), (String ((Ascii
                                (false, true, true, true, false, true, false,
                                false)), (String ((Ascii (true, false, true,
                                false, false, false, true, false)), (String
                                ((Ascii (false, true, true, false, true,
                                true, true, false)), (String ((Ascii (true,
                                false, true, false, false, true, true,
                                false)), (String ((Ascii (false, true, true,
                                true, false, true, true, false)), (String
                                ((Ascii (false, false, true, false, true,
                                true, true, false)), (String ((Ascii (true,
                                false, false, false, false, false, true,
                                false)), (String ((Ascii (false, false, true,
                                true, false, true, true, false)), (String
                                ((Ascii (false, false, true, true, false,
                                true, true, false)), (String ((Ascii (true,
                                true, true, true, false, true, true, false)),
                                (String ((Ascii (true, true, false, false,
                                false, true, true, false)), (String ((Ascii
                                (true, false, false, false, false, true,
                                true, false)), (String ((Ascii (false, false,
                                true, false, true, true, true, false)),
                                (String ((Ascii (true, false, true, false,
                                false, true, true, false)),
                                EmptyString))))))))))))))))))))))))))))))))))))))))))))))))))))
                                ((VT (canon RAcc ta)) :: ((VZ bytes) :: ((VZ
                                tal.al_used) :: ((VZ id0) :: [])))))
                              (set (fun s0 -> s0.allocs) (fun f ->
                                let g = fun r -> f r.allocs in
                                (fun x -> { cfg = x.cfg; bank = x.bank;
                                supply = x.supply; deposits = x.deposits;
                                prov_act = x.prov_act; prov_inact =
                                x.prov_inact; node_act = x.node_act;
                                node_inact = x.node_inact; node_q = x.node_q;
                                node_plan = x.node_plan; plan_count =
                                x.plan_count; plan_act = x.plan_act;
                                plan_inact = x.plan_inact; plan_prov =
                                x.plan_prov; sub_count = x.sub_count; subs =
                                x.subs; sub_q = x.sub_q; sub_acc = x.sub_acc;
                                sub_node = x.sub_node; sub_plan = x.sub_plan;
                                allocs = (g x); payouts = x.payouts; pay_q =
                                x.pay_q; pay_acc = x.pay_acc; pay_node =
                                x.pay_node; pay_acc_node = x.pay_acc_node;
                                sess_count = x.sess_count; sessions =
                                x.sessions; sess_q = x.sess_q; sess_acc =
                                x.sess_acc; sess_node = x.sess_node;
                                sess_sub = x.sess_sub; sess_alloc =
                                x.sess_alloc; pars = x.pars; modified =
                                x.modified; swaps = x.swaps; inflations =
                                x.inflations; mint_max = x.mint_max;
                                mint_min = x.mint_min; mint_rate =
                                x.mint_rate; mint_inflation =
                                x.mint_inflation; now = x.now; events =
                                x.events })) (fun m ->
                                insert0
                                  (map_insert
                                    (gmap_partial_alter
                                      (prod_eq_dec Coq_Z.eq_dec
                                        (list_eq_dec0 n_eq_dec))
                                      (prod_countable Coq_Z.eq_dec
                                        z_countable (list_eq_dec0 n_eq_dec)
                                        (list_countable n_eq_dec n_countable))))
                                  (id0, ta) tal' m) s2))))))))))
        | None -> Err))
  | None -> Err

(** val latest_payout_for : state -> addr -> addr -> payout option res **)

let latest_payout_for s acc nd =
  match last_opt (ids_for_aa s.pay_acc_node acc nd) with
  | Some id0 ->
    (match lookup0 (gmap_lookup Coq_Z.eq_dec z_countable) id0 s.payouts with
     | Some po -> Ok (Some po)
     | None -> Panic)
  | None -> Ok None

(** val latest_session_for_alloc :
    state -> z -> addr -> session option res **)

let latest_session_for_alloc s id0 acc =
  match last_opt (ids_for_za s.sess_alloc id0 acc) with
  | Some sid ->
    (match lookup0 (gmap_lookup Coq_Z.eq_dec z_countable) sid s.sessions with
     | Some x -> Ok (Some x)
     | None -> Panic)
  | None -> Ok None

(** val h_sess_start : state -> taddr -> z -> taddr -> state res **)

let h_sess_start s from id0 nd =
  match lookup0 (gmap_lookup Coq_Z.eq_dec z_countable) id0 s.subs with
  | Some sb ->
    rbind
      (ensure (bool_decide (decide_rel status_eq_dec sb.sb_status SActive)))
      (fun _ ->
      let na = nd.ta_bytes in
      (match get_node s na with
       | Some n0 ->
         rbind
           (ensure
             (bool_decide (decide_rel status_eq_dec n0.nd_status SActive)))
           (fun _ ->
           rbind
             (match sb.sb_kind with
              | KNode (sn, _, _, _) ->
                ensure
                  (bool_decide
                    (decide_rel (list_eq_dec0 n_eq_dec) n0.nd_addr sn))
              | KPlan (pid, _) ->
                (match get_plan s pid with
                 | Some p ->
                   rbind (latest_payout_for s p.pl_prov na) (fun po ->
                     rbind (ensure (bool_decide (is_Some_dec po))) (fun _ ->
                       ensure
                         (bool_decide
                           (decide_rel
                             (gset_elem_of_dec
                               (prod_eq_dec Coq_Z.eq_dec
                                 (list_eq_dec0 n_eq_dec))
                               (prod_countable Coq_Z.eq_dec z_countable
                                 (list_eq_dec0 n_eq_dec)
                                 (list_countable n_eq_dec n_countable)))
                             (pid, na) s.node_plan))))
                 | None -> Err)) (fun _ ->
             let acc = from.ta_bytes in
             rbind
               (match sb.sb_kind with
                | KNode (_, _, hours, _) ->
                  rbind (ensure (ta_eqb from (canon RAcc sb.sb_addr)))
                    (fun _ -> Ok (Z.eqb hours Z0))
                | KPlan (_, _) -> Ok true) (fun check_alloc ->
               rbind
                 (if check_alloc
                  then (match lookup0
                                (gmap_lookup
                                  (prod_eq_dec Coq_Z.eq_dec
                                    (list_eq_dec0 n_eq_dec))
                                  (prod_countable Coq_Z.eq_dec z_countable
                                    (list_eq_dec0 n_eq_dec)
                                    (list_countable n_eq_dec n_countable)))
                                (id0, acc) s.allocs with
                        | Some al ->
                          ensure (negb (Z.leb al.al_granted al.al_used))
                        | None -> Err)
                  else Ok ()) (fun _ ->
                 rbind (latest_session_for_alloc s id0 acc) (fun latest ->
                   rbind
                     (ensure
                       (match latest with
                        | Some x ->
                          negb
                            (bool_decide
                              (decide_rel status_eq_dec x.ss_status SActive))
                        | None -> true)) (fun _ ->
                     let sid = Z.add s.sess_count (Zpos XH) in
                     let t0 = Z.add s.now s.pars.p_sess_delay in
                     let x = { ss_id = sid; ss_sub = id0; ss_node = na;
                       ss_addr = acc; ss_up = Z0; ss_down = Z0; ss_duration =
                       Z0; ss_inactive_at = t0; ss_status = SActive;
                       ss_status_at = s.now }
                     in
                     Ok
                     (emit
                       (ev (String ((Ascii (true, true, false, false, true,
                         true, true, false)), (String ((Ascii (true, false,
                         true, false, false, true, true, false)), (String
                         ((Ascii (true, true, false, false, true, true, true,
                         false)), (String ((Ascii (true, true, false, false,
                         true, true, true, false)), (String ((Ascii (true,
                         false, false, true, false, true, true, false)),
                         (String ((Ascii (true, true, true, true, false,
                         true, true, false)), (String ((Ascii (false, true,
                         true, true, false, true, true, false)), (String
                         ((Ascii (false, true, true, true, false, true,
                         false, false)), (String ((Ascii (true, false, true,
                         false, false, false, true, false)), (String ((Ascii
                         (false, true, true, false, true, true, true,
                         false)), (String ((Ascii (true, false, true, false,
                         false, true, true, false)), (String ((Ascii (false,
                         true, true, true, false, true, true, false)),
                         (String ((Ascii (false, false, true, false, true,
                         true, true, false)), (String ((Ascii (true, true,
                         false, false, true, false, true, false)), (String
                         ((Ascii (false, false, true, false, true, true,
                         true, false)), (String ((Ascii (true, false, false,
                         false, false, true, true, false)), (String ((Ascii
                         (false, true, false, false, true, true, true,
                         false)), (String ((Ascii (false, false, true, false,
                         true, true, true, false)),
                         EmptyString)))))))))))))))))))))))))))))))))))) ((VT
                         (canon RAcc acc)) :: ((VT (canon RNode na)) :: ((VZ
                         sid) :: ((VZ id0) :: [])))))
                       (set (fun s0 -> s0.sess_q) (fun f ->
                         let g = fun r -> f r.sess_q in
                         (fun x0 -> { cfg = x0.cfg; bank = x0.bank; supply =
                         x0.supply; deposits = x0.deposits; prov_act =
                         x0.prov_act; prov_inact = x0.prov_inact; node_act =
                         x0.node_act; node_inact = x0.node_inact; node_q =
                         x0.node_q; node_plan = x0.node_plan; plan_count =
                         x0.plan_count; plan_act = x0.plan_act; plan_inact =
                         x0.plan_inact; plan_prov = x0.plan_prov; sub_count =
                         x0.sub_count; subs = x0.subs; sub_q = x0.sub_q;
                         sub_acc = x0.sub_acc; sub_node = x0.sub_node;
                         sub_plan = x0.sub_plan; allocs = x0.allocs;
                         payouts = x0.payouts; pay_q = x0.pay_q; pay_acc =
                         x0.pay_acc; pay_node = x0.pay_node; pay_acc_node =
                         x0.pay_acc_node; sess_count = x0.sess_count;
                         sessions = x0.sessions; sess_q = (g x0); sess_acc =
                         x0.sess_acc; sess_node = x0.sess_node; sess_sub =
                         x0.sess_sub; sess_alloc = x0.sess_alloc; pars =
                         x0.pars; modified = x0.modified; swaps = x0.swaps;
                         inflations = x0.inflations; mint_max = x0.mint_max;
                         mint_min = x0.mint_min; mint_rate = x0.mint_rate;
                         mint_inflation = x0.mint_inflation; now = x0.now;
                         events = x0.events })) (fun i ->
                         union0
                           (gset_union
                             (prod_eq_dec Coq_Z.eq_dec Coq_Z.eq_dec)
                             (prod_countable Coq_Z.eq_dec z_countable
                               Coq_Z.eq_dec z_countable)) i
                           (singleton0
                             (gset_singleton
                               (prod_eq_dec Coq_Z.eq_dec Coq_Z.eq_dec)
                               (prod_countable Coq_Z.eq_dec z_countable
                                 Coq_Z.eq_dec z_countable)) (t0, sid)))
                         (set (fun s0 -> s0.sess_alloc) (fun f ->
                           let g = fun r -> f r.sess_alloc in
                           (fun x0 -> { cfg = x0.cfg; bank = x0.bank;
                           supply = x0.supply; deposits = x0.deposits;
                           prov_act = x0.prov_act; prov_inact =
                           x0.prov_inact; node_act = x0.node_act;
                           node_inact = x0.node_inact; node_q = x0.node_q;
                           node_plan = x0.node_plan; plan_count =
                           x0.plan_count; plan_act = x0.plan_act;
                           plan_inact = x0.plan_inact; plan_prov =
                           x0.plan_prov; sub_count = x0.sub_count; subs =
                           x0.subs; sub_q = x0.sub_q; sub_acc = x0.sub_acc;
                           sub_node = x0.sub_node; sub_plan = x0.sub_plan;
                           allocs = x0.allocs; payouts = x0.payouts; pay_q =
                           x0.pay_q; pay_acc = x0.pay_acc; pay_node =
                           x0.pay_node; pay_acc_node = x0.pay_acc_node;
                           sess_count = x0.sess_count; sessions =
                           x0.sessions; sess_q = x0.sess_q; sess_acc =
                           x0.sess_acc; sess_node = x0.sess_node; sess_sub =
                           x0.sess_sub; sess_alloc = (g x0); pars = x0.pars;
                           modified = x0.modified; swaps = x0.swaps;
                           inflations = x0.inflations; mint_max =
                           x0.mint_max; mint_min = x0.mint_min; mint_rate =
                           x0.mint_rate; mint_inflation = x0.mint_inflation;
                           now = x0.now; events = x0.events })) (fun i ->
                           union0
                             (gset_union
                               (prod_eq_dec
                                 (prod_eq_dec Coq_Z.eq_dec
                                   (list_eq_dec0 n_eq_dec)) Coq_Z.eq_dec)
                               (prod_countable
                                 (prod_eq_dec Coq_Z.eq_dec
                                   (list_eq_dec0 n_eq_dec))
                                 (prod_countable Coq_Z.eq_dec z_countable
                                   (list_eq_dec0 n_eq_dec)
                                   (list_countable n_eq_dec n_countable))
                                 Coq_Z.eq_dec z_countable)) i
                             (singleton0
                               (gset_singleton
                                 (prod_eq_dec
                                   (prod_eq_dec Coq_Z.eq_dec
                                     (list_eq_dec0 n_eq_dec)) Coq_Z.eq_dec)
                                 (prod_countable
                                   (prod_eq_dec Coq_Z.eq_dec
                                     (list_eq_dec0 n_eq_dec))
                                   (prod_countable Coq_Z.eq_dec z_countable
                                     (list_eq_dec0 n_eq_dec)
                                     (list_countable n_eq_dec n_countable))
                                   Coq_Z.eq_dec z_countable)) ((id0, acc),
                               sid)))
                           (set (fun s0 -> s0.sess_sub) (fun f ->
                             let g = fun r -> f r.sess_sub in
                             (fun x0 -> { cfg = x0.cfg; bank = x0.bank;
                             supply = x0.supply; deposits = x0.deposits;
                             prov_act = x0.prov_act; prov_inact =
                             x0.prov_inact; node_act = x0.node_act;
                             node_inact = x0.node_inact; node_q = x0.node_q;
                             node_plan = x0.node_plan; plan_count =
                             x0.plan_count; plan_act = x0.plan_act;
                             plan_inact = x0.plan_inact; plan_prov =
                             x0.plan_prov; sub_count = x0.sub_count; subs =
                             x0.subs; sub_q = x0.sub_q; sub_acc = x0.sub_acc;
                             sub_node = x0.sub_node; sub_plan = x0.sub_plan;
                             allocs = x0.allocs; payouts = x0.payouts;
                             pay_q = x0.pay_q; pay_acc = x0.pay_acc;
                             pay_node = x0.pay_node; pay_acc_node =
                             x0.pay_acc_node; sess_count = x0.sess_count;
                             sessions = x0.sessions; sess_q = x0.sess_q;
                             sess_acc = x0.sess_acc; sess_node =
                             x0.sess_node; sess_sub = (g x0); sess_alloc =
                             x0.sess_alloc; pars = x0.pars; modified =
                             x0.modified; swaps = x0.swaps; inflations =
                             x0.inflations; mint_max = x0.mint_max;
                             mint_min = x0.mint_min; mint_rate =
                             x0.mint_rate; mint_inflation =
                             x0.mint_inflation; now = x0.now; events =
                             x0.events })) (fun i ->
                             union0
                               (gset_union
                                 (prod_eq_dec Coq_Z.eq_dec Coq_Z.eq_dec)
                                 (prod_countable Coq_Z.eq_dec z_countable
                                   Coq_Z.eq_dec z_countable)) i
                               (singleton0
                                 (gset_singleton
                                   (prod_eq_dec Coq_Z.eq_dec Coq_Z.eq_dec)
                                   (prod_countable Coq_Z.eq_dec z_countable
                                     Coq_Z.eq_dec z_countable)) (id0, sid)))
                             (set (fun s0 -> s0.sess_node) (fun f ->
                               let g = fun r -> f r.sess_node in
                               (fun x0 -> { cfg = x0.cfg; bank = x0.bank;
                               supply = x0.supply; deposits = x0.deposits;
                               prov_act = x0.prov_act; prov_inact =
                               x0.prov_inact; node_act = x0.node_act;
                               node_inact = x0.node_inact; node_q =
                               x0.node_q; node_plan = x0.node_plan;
                               plan_count = x0.plan_count; plan_act =
                               x0.plan_act; plan_inact = x0.plan_inact;
                               plan_prov = x0.plan_prov; sub_count =
                               x0.sub_count; subs = x0.subs; sub_q =
                               x0.sub_q; sub_acc = x0.sub_acc; sub_node =
                               x0.sub_node; sub_plan = x0.sub_plan; allocs =
                               x0.allocs; payouts = x0.payouts; pay_q =
                               x0.pay_q; pay_acc = x0.pay_acc; pay_node =
                               x0.pay_node; pay_acc_node = x0.pay_acc_node;
                               sess_count = x0.sess_count; sessions =
                               x0.sessions; sess_q = x0.sess_q; sess_acc =
                               x0.sess_acc; sess_node = (g x0); sess_sub =
                               x0.sess_sub; sess_alloc = x0.sess_alloc;
                               pars = x0.pars; modified = x0.modified;
                               swaps = x0.swaps; inflations = x0.inflations;
                               mint_max = x0.mint_max; mint_min =
                               x0.mint_min; mint_rate = x0.mint_rate;
                               mint_inflation = x0.mint_inflation; now =
                               x0.now; events = x0.events })) (fun i ->
                               union0
                                 (gset_union
                                   (prod_eq_dec (list_eq_dec0 n_eq_dec)
                                     Coq_Z.eq_dec)
                                   (prod_countable (list_eq_dec0 n_eq_dec)
                                     (list_countable n_eq_dec n_countable)
                                     Coq_Z.eq_dec z_countable)) i
                                 (singleton0
                                   (gset_singleton
                                     (prod_eq_dec (list_eq_dec0 n_eq_dec)
                                       Coq_Z.eq_dec)
                                     (prod_countable (list_eq_dec0 n_eq_dec)
                                       (list_countable n_eq_dec n_countable)
                                       Coq_Z.eq_dec z_countable)) (na, sid)))
                               (set (fun s0 -> s0.sess_acc) (fun f ->
                                 let g = fun r -> f r.sess_acc in
                                 (fun x0 -> { cfg = x0.cfg; bank = x0.bank;
                                 supply = x0.supply; deposits = x0.deposits;
                                 prov_act = x0.prov_act; prov_inact =
                                 x0.prov_inact; node_act = x0.node_act;
                                 node_inact = x0.node_inact; node_q =
                                 x0.node_q; node_plan = x0.node_plan;
                                 plan_count = x0.plan_count; plan_act =
                                 x0.plan_act; plan_inact = x0.plan_inact;
                                 plan_prov = x0.plan_prov; sub_count =
                                 x0.sub_count; subs = x0.subs; sub_q =
                                 x0.sub_q; sub_acc = x0.sub_acc; sub_node =
                                 x0.sub_node; sub_plan = x0.sub_plan;
                                 allocs = x0.allocs; payouts = x0.payouts;
                                 pay_q = x0.pay_q; pay_acc = x0.pay_acc;
                                 pay_node = x0.pay_node; pay_acc_node =
                                 x0.pay_acc_node; sess_count = x0.sess_count;
                                 sessions = x0.sessions; sess_q = x0.sess_q;
                                 sess_acc = (g x0); sess_node = x0.sess_node;
                                 sess_sub = x0.sess_sub; sess_alloc =
                                 x0.sess_alloc; pars = x0.pars; modified =
                                 x0.modified; swaps = x0.swaps; inflations =
                                 x0.inflations; mint_max = x0.mint_max;
                                 mint_min = x0.mint_min; mint_rate =
                                 x0.mint_rate; mint_inflation =
                                 x0.mint_inflation; now = x0.now; events =
                                 x0.events })) (fun i ->
                                 union0
                                   (gset_union
                                     (prod_eq_dec (list_eq_dec0 n_eq_dec)
                                       Coq_Z.eq_dec)
                                     (prod_countable (list_eq_dec0 n_eq_dec)
                                       (list_countable n_eq_dec n_countable)
                                       Coq_Z.eq_dec z_countable)) i
                                   (singleton0
                                     (gset_singleton
                                       (prod_eq_dec (list_eq_dec0 n_eq_dec)
                                         Coq_Z.eq_dec)
                                       (prod_countable
                                         (list_eq_dec0 n_eq_dec)
                                         (list_countable n_eq_dec n_countable)
                                         Coq_Z.eq_dec z_countable)) (acc,
                                     sid)))
                                 (set (fun s0 -> s0.sessions) (fun f ->
                                   let g = fun r -> f r.sessions in
                                   (fun x0 -> { cfg = x0.cfg; bank = x0.bank;
                                   supply = x0.supply; deposits =
                                   x0.deposits; prov_act = x0.prov_act;
                                   prov_inact = x0.prov_inact; node_act =
                                   x0.node_act; node_inact = x0.node_inact;
                                   node_q = x0.node_q; node_plan =
                                   x0.node_plan; plan_count = x0.plan_count;
                                   plan_act = x0.plan_act; plan_inact =
                                   x0.plan_inact; plan_prov = x0.plan_prov;
                                   sub_count = x0.sub_count; subs = x0.subs;
                                   sub_q = x0.sub_q; sub_acc = x0.sub_acc;
                                   sub_node = x0.sub_node; sub_plan =
                                   x0.sub_plan; allocs = x0.allocs; payouts =
                                   x0.payouts; pay_q = x0.pay_q; pay_acc =
                                   x0.pay_acc; pay_node = x0.pay_node;
                                   pay_acc_node = x0.pay_acc_node;
                                   sess_count = x0.sess_count; sessions =
                                   (g x0); sess_q = x0.sess_q; sess_acc =
                                   x0.sess_acc; sess_node = x0.sess_node;
                                   sess_sub = x0.sess_sub; sess_alloc =
                                   x0.sess_alloc; pars = x0.pars; modified =
                                   x0.modified; swaps = x0.swaps;
                                   inflations = x0.inflations; mint_max =
                                   x0.mint_max; mint_min = x0.mint_min;
                                   mint_rate = x0.mint_rate; mint_inflation =
                                   x0.mint_inflation; now = x0.now; events =
                                   x0.events })) (fun m ->
                                   insert0
                                     (map_insert
                                       (gmap_partial_alter Coq_Z.eq_dec
                                         z_countable)) sid x m)
                                   (set (fun s0 -> s0.sess_count) (fun f ->
                                     let z0 = fun r -> f r.sess_count in
                                     (fun x0 -> { cfg = x0.cfg; bank =
                                     x0.bank; supply = x0.supply; deposits =
                                     x0.deposits; prov_act = x0.prov_act;
                                     prov_inact = x0.prov_inact; node_act =
                                     x0.node_act; node_inact = x0.node_inact;
                                     node_q = x0.node_q; node_plan =
                                     x0.node_plan; plan_count =
                                     x0.plan_count; plan_act = x0.plan_act;
                                     plan_inact = x0.plan_inact; plan_prov =
                                     x0.plan_prov; sub_count = x0.sub_count;
                                     subs = x0.subs; sub_q = x0.sub_q;
                                     sub_acc = x0.sub_acc; sub_node =
                                     x0.sub_node; sub_plan = x0.sub_plan;
                                     allocs = x0.allocs; payouts =
                                     x0.payouts; pay_q = x0.pay_q; pay_acc =
                                     x0.pay_acc; pay_node = x0.pay_node;
                                     pay_acc_node = x0.pay_acc_node;
                                     sess_count = (z0 x0); sessions =
                                     x0.sessions; sess_q = x0.sess_q;
                                     sess_acc = x0.sess_acc; sess_node =
                                     x0.sess_node; sess_sub = x0.sess_sub;
                                     sess_alloc = x0.sess_alloc; pars =
                                     x0.pars; modified = x0.modified; swaps =
                                     x0.swaps; inflations = x0.inflations;
                                     mint_max = x0.mint_max; mint_min =
                                     x0.mint_min; mint_rate = x0.mint_rate;
                                     mint_inflation = x0.mint_inflation;
                                     now = x0.now; events = x0.events }))
                                     (fun _ -> sid) s))))))))))))))
       | None -> Err))
  | None -> Err

(** val h_sess_update :
    state -> taddr -> z -> z -> z -> z -> bool -> state res **)

let h_sess_update s from id0 up down duration sig_ok =
  match lookup0 (gmap_lookup Coq_Z.eq_dec z_countable) id0 s.sessions with
  | Some x ->
    rbind
      (ensure
        (negb (bool_decide (decide_rel status_eq_dec x.ss_status SInactive))))
      (fun _ ->
      rbind (ensure (ta_eqb from (canon RNode x.ss_node))) (fun _ ->
        rbind (ensure ((||) (negb s.pars.p_sess_proof) sig_ok)) (fun _ ->
          let (s1, x1) =
            if bool_decide (decide_rel status_eq_dec x.ss_status SActive)
            then let t0 = Z.add s.now s.pars.p_sess_delay in
                 ((set (fun s0 -> s0.sess_q) (fun f ->
                    let g = fun r -> f r.sess_q in
                    (fun x0 -> { cfg = x0.cfg; bank = x0.bank; supply =
                    x0.supply; deposits = x0.deposits; prov_act =
                    x0.prov_act; prov_inact = x0.prov_inact; node_act =
                    x0.node_act; node_inact = x0.node_inact; node_q =
                    x0.node_q; node_plan = x0.node_plan; plan_count =
                    x0.plan_count; plan_act = x0.plan_act; plan_inact =
                    x0.plan_inact; plan_prov = x0.plan_prov; sub_count =
                    x0.sub_count; subs = x0.subs; sub_q = x0.sub_q; sub_acc =
                    x0.sub_acc; sub_node = x0.sub_node; sub_plan =
                    x0.sub_plan; allocs = x0.allocs; payouts = x0.payouts;
                    pay_q = x0.pay_q; pay_acc = x0.pay_acc; pay_node =
                    x0.pay_node; pay_acc_node = x0.pay_acc_node; sess_count =
                    x0.sess_count; sessions = x0.sessions; sess_q = (g x0);
                    sess_acc = x0.sess_acc; sess_node = x0.sess_node;
                    sess_sub = x0.sess_sub; sess_alloc = x0.sess_alloc;
                    pars = x0.pars; modified = x0.modified; swaps = x0.swaps;
                    inflations = x0.inflations; mint_max = x0.mint_max;
                    mint_min = x0.mint_min; mint_rate = x0.mint_rate;
                    mint_inflation = x0.mint_inflation; now = x0.now;
                    events = x0.events })) (fun q ->
                    union0
                      (gset_union (prod_eq_dec Coq_Z.eq_dec Coq_Z.eq_dec)
                        (prod_countable Coq_Z.eq_dec z_countable Coq_Z.eq_dec
                          z_countable))
                      (difference0
                        (gset_difference
                          (prod_eq_dec Coq_Z.eq_dec Coq_Z.eq_dec)
                          (prod_countable Coq_Z.eq_dec z_countable
                            Coq_Z.eq_dec z_countable)) q
                        (singleton0
                          (gset_singleton
                            (prod_eq_dec Coq_Z.eq_dec Coq_Z.eq_dec)
                            (prod_countable Coq_Z.eq_dec z_countable
                              Coq_Z.eq_dec z_countable)) (x.ss_inactive_at,
                          id0)))
                      (singleton0
                        (gset_singleton
                          (prod_eq_dec Coq_Z.eq_dec Coq_Z.eq_dec)
                          (prod_countable Coq_Z.eq_dec z_countable
                            Coq_Z.eq_dec z_countable)) (t0, id0))) s),
                 (set (fun s0 -> s0.ss_inactive_at) (fun f ->
                   let t1 = fun r -> f r.ss_inactive_at in
                   (fun x0 -> { ss_id = x0.ss_id; ss_sub = x0.ss_sub;
                   ss_node = x0.ss_node; ss_addr = x0.ss_addr; ss_up =
                   x0.ss_up; ss_down = x0.ss_down; ss_duration =
                   x0.ss_duration; ss_inactive_at = (t1 x0); ss_status =
                   x0.ss_status; ss_status_at = x0.ss_status_at })) (fun _ ->
                   t0) x))
            else (s, x)
          in
          let x2 =
            set (fun s0 -> s0.ss_duration) (fun f ->
              let z0 = fun r -> f r.ss_duration in
              (fun x0 -> { ss_id = x0.ss_id; ss_sub = x0.ss_sub; ss_node =
              x0.ss_node; ss_addr = x0.ss_addr; ss_up = x0.ss_up; ss_down =
              x0.ss_down; ss_duration = (z0 x0); ss_inactive_at =
              x0.ss_inactive_at; ss_status = x0.ss_status; ss_status_at =
              x0.ss_status_at })) (fun _ -> duration)
              (set (fun s0 -> s0.ss_down) (fun f ->
                let z0 = fun r -> f r.ss_down in
                (fun x0 -> { ss_id = x0.ss_id; ss_sub = x0.ss_sub; ss_node =
                x0.ss_node; ss_addr = x0.ss_addr; ss_up = x0.ss_up; ss_down =
                (z0 x0); ss_duration = x0.ss_duration; ss_inactive_at =
                x0.ss_inactive_at; ss_status = x0.ss_status; ss_status_at =
                x0.ss_status_at })) (fun _ -> down)
                (set (fun s0 -> s0.ss_up) (fun f ->
                  let z0 = fun r -> f r.ss_up in
                  (fun x0 -> { ss_id = x0.ss_id; ss_sub = x0.ss_sub;
                  ss_node = x0.ss_node; ss_addr = x0.ss_addr; ss_up =
                  (z0 x0); ss_down = x0.ss_down; ss_duration =
                  x0.ss_duration; ss_inactive_at = x0.ss_inactive_at;
                  ss_status = x0.ss_status; ss_status_at = x0.ss_status_at }))
                  (fun _ -> up) x1))
          in
          Ok
          (emit
            (ev (String ((Ascii (true, true, false, false, true, true, true,
              false)), (String ((Ascii (true, false, true, false, false,
              true, true, false)), (String ((Ascii (true, true, false, false,
              true, true, true, false)), (String ((Ascii (true, true, false,
              false, true, true, true, false)), (String ((Ascii (true, false,
              false, true, false, true, true, false)), (String ((Ascii (true,
              true, true, true, false, true, true, false)), (String ((Ascii
              (false, true, true, true, false, true, true, false)), (String
              ((Ascii (false, true, true, true, false, true, false, false)),
              (String ((Ascii (true, false, true, false, false, false, true,
              false)), (String ((Ascii (false, true, true, false, true, true,
              true, false)), (String ((Ascii (true, false, true, false,
              false, true, true, false)), (String ((Ascii (false, true, true,
              true, false, true, true, false)), (String ((Ascii (false,
              false, true, false, true, true, true, false)), (String ((Ascii
              (true, false, true, false, true, false, true, false)), (String
              ((Ascii (false, false, false, false, true, true, true, false)),
              (String ((Ascii (false, false, true, false, false, true, true,
              false)), (String ((Ascii (true, false, false, false, false,
              true, true, false)), (String ((Ascii (false, false, true,
              false, true, true, true, false)), (String ((Ascii (true, false,
              true, false, false, true, true, false)), (String ((Ascii
              (false, false, true, false, false, false, true, false)),
              (String ((Ascii (true, false, true, false, false, true, true,
              false)), (String ((Ascii (false, false, true, false, true,
              true, true, false)), (String ((Ascii (true, false, false,
              false, false, true, true, false)), (String ((Ascii (true,
              false, false, true, false, true, true, false)), (String ((Ascii
              (false, false, true, true, false, true, true, false)), (String
              ((Ascii (true, true, false, false, true, true, true, false)),
              EmptyString))))))))))))))))))))))))))))))))))))))))))))))))))))
              ((VT (canon RAcc x.ss_addr)) :: ((VT
              (canon RNode x.ss_node)) :: ((VZ id0) :: ((VZ
              x.ss_sub) :: [])))))
            (set (fun s0 -> s0.sessions) (fun f ->
              let g = fun r -> f r.sessions in
              (fun x0 -> { cfg = x0.cfg; bank = x0.bank; supply = x0.supply;
              deposits = x0.deposits; prov_act = x0.prov_act; prov_inact =
              x0.prov_inact; node_act = x0.node_act; node_inact =
              x0.node_inact; node_q = x0.node_q; node_plan = x0.node_plan;
              plan_count = x0.plan_count; plan_act = x0.plan_act;
              plan_inact = x0.plan_inact; plan_prov = x0.plan_prov;
              sub_count = x0.sub_count; subs = x0.subs; sub_q = x0.sub_q;
              sub_acc = x0.sub_acc; sub_node = x0.sub_node; sub_plan =
              x0.sub_plan; allocs = x0.allocs; payouts = x0.payouts; pay_q =
              x0.pay_q; pay_acc = x0.pay_acc; pay_node = x0.pay_node;
              pay_acc_node = x0.pay_acc_node; sess_count = x0.sess_count;
              sessions = (g x0); sess_q = x0.sess_q; sess_acc = x0.sess_acc;
              sess_node = x0.sess_node; sess_sub = x0.sess_sub; sess_alloc =
              x0.sess_alloc; pars = x0.pars; modified = x0.modified; swaps =
              x0.swaps; inflations = x0.inflations; mint_max = x0.mint_max;
              mint_min = x0.mint_min; mint_rate = x0.mint_rate;
              mint_inflation = x0.mint_inflation; now = x0.now; events =
              x0.events })) (fun m ->
              insert0
                (map_insert (gmap_partial_alter Coq_Z.eq_dec z_countable))
                id0 x2 m) s1)))))
  | None -> Err

(** val h_sess_end : state -> taddr -> z -> state res **)

let h_sess_end s from id0 =
  match lookup0 (gmap_lookup Coq_Z.eq_dec z_countable) id0 s.sessions with
  | Some x ->
    rbind
      (ensure (bool_decide (decide_rel status_eq_dec x.ss_status SActive)))
      (fun _ ->
      rbind (ensure (ta_eqb from (canon RAcc x.ss_addr))) (fun _ -> Ok
        (session_make_pending s x)))
  | None -> Err

(** val h_swap : state -> taddr -> n list -> taddr -> z -> state res **)

let h_swap s from hash receiver amount =
  rbind (ensure s.pars.p_swap_enabled) (fun _ ->
    rbind (ensure (ta_eqb s.pars.p_swap_approver from)) (fun _ ->
      rbind
        (ensure
          (negb
            (bool_decide
              (is_Some_dec
                (lookup0
                  (gmap_lookup (list_eq_dec0 n_eq_dec)
                    (list_countable n_eq_dec n_countable)) hash s.swaps)))))
        (fun _ ->
        rbind (int_quo amount (Zpos (XO (XO (XI (XO (XO (XI XH))))))))
          (fun q ->
          rbind (new_coin s.pars.p_swap_denom q) (fun c ->
            let w = { sw_hash = hash; sw_receiver = receiver; sw_amount = c }
            in
            rbind (bank_mint s s.cfg.c_swap (fst c) (snd c)) (fun s1 ->
              rbind
                (bank_send_to_account s1 s.cfg.c_swap receiver.ta_bytes
                  (fst c) (snd c)) (fun s2 -> Ok
                (emit
                  (ev (String ((Ascii (true, true, false, false, true, true,
                    true, false)), (String ((Ascii (true, true, true, false,
                    true, true, true, false)), (String ((Ascii (true, false,
                    false, false, false, true, true, false)), (String ((Ascii
                    (false, false, false, false, true, true, true, false)),
                    (String ((Ascii (false, true, true, true, false, true,
                    false, false)), (String ((Ascii (true, false, true,
                    false, false, false, true, false)), (String ((Ascii
                    (false, true, true, false, true, true, true, false)),
                    (String ((Ascii (true, false, true, false, false, true,
                    true, false)), (String ((Ascii (false, true, true, true,
                    false, true, true, false)), (String ((Ascii (false,
                    false, true, false, true, true, true, false)), (String
                    ((Ascii (true, true, false, false, true, false, true,
                    false)), (String ((Ascii (true, true, true, false, true,
                    true, true, false)), (String ((Ascii (true, false, false,
                    false, false, true, true, false)), (String ((Ascii
                    (false, false, false, false, true, true, true, false)),
                    EmptyString)))))))))))))))))))))))))))) ((VH
                    hash) :: ((VT receiver) :: [])))
                  (set (fun s0 -> s0.swaps) (fun f ->
                    let g = fun r -> f r.swaps in
                    (fun x -> { cfg = x.cfg; bank = x.bank; supply =
                    x.supply; deposits = x.deposits; prov_act = x.prov_act;
                    prov_inact = x.prov_inact; node_act = x.node_act;
                    node_inact = x.node_inact; node_q = x.node_q; node_plan =
                    x.node_plan; plan_count = x.plan_count; plan_act =
                    x.plan_act; plan_inact = x.plan_inact; plan_prov =
                    x.plan_prov; sub_count = x.sub_count; subs = x.subs;
                    sub_q = x.sub_q; sub_acc = x.sub_acc; sub_node =
                    x.sub_node; sub_plan = x.sub_plan; allocs = x.allocs;
                    payouts = x.payouts; pay_q = x.pay_q; pay_acc =
                    x.pay_acc; pay_node = x.pay_node; pay_acc_node =
                    x.pay_acc_node; sess_count = x.sess_count; sessions =
                    x.sessions; sess_q = x.sess_q; sess_acc = x.sess_acc;
                    sess_node = x.sess_node; sess_sub = x.sess_sub;
                    sess_alloc = x.sess_alloc; pars = x.pars; modified =
                    x.modified; swaps = (g x); inflations = x.inflations;
                    mint_max = x.mint_max; mint_min = x.mint_min; mint_rate =
                    x.mint_rate; mint_inflation = x.mint_inflation; now =
                    x.now; events = x.events })) (fun m ->
                    insert0
                      (map_insert
                        (gmap_partial_alter (list_eq_dec0 n_eq_dec)
                          (list_countable n_eq_dec n_countable))) hash w m)
                    s2)))))))))

(** val handle : state -> msg -> state res **)

let handle s = function
| MProvRegister (from, name, identity, website, description, _) ->
  h_prov_register s from name identity website description
| MProvUpdate (from, name, identity, website, description, _, st) ->
  h_prov_update s from name identity website description st
| MNodeRegister (from, gb, hr, url, _) ->
  h_node_register s from (from_option (Obj.magic id) [] gb)
    (from_option (Obj.magic id) [] hr) url
| MNodeUpdateDetails (from, gb, hr, url, _) ->
  h_node_update_details s from gb hr url
| MNodeUpdateStatus (from, st) -> h_node_update_status s from st
| MNodeSubscribe (from, nd, g, h, dn) -> h_node_subscribe s from nd g h dn
| MPlanCreate (from, duration, g, prices) ->
  h_plan_create s from duration g (from_option (Obj.magic id) [] prices)
| MPlanUpdateStatus (from, id0, st) -> h_plan_update_status s from id0 st
| MPlanLink (from, id0, nd) -> h_plan_link s from id0 nd
| MPlanUnlink (from, id0, nd) -> h_plan_unlink s from id0 nd
| MPlanSubscribe (from, id0, dn) -> h_plan_subscribe s from id0 dn
| MSubCancel (from, id0) -> h_sub_cancel s from id0
| MSubAllocate (from, id0, to0, bytes) -> h_sub_allocate s from id0 to0 bytes
| MSessStart (from, id0, nd) -> h_sess_start s from id0 nd
| MSessUpdate (from, id0, up, down, duration, _, sig_ok) ->
  h_sess_update s from id0 up down duration sig_ok
| MSessEnd (from, id0, _) -> h_sess_end s from id0
| MSwap (from, hash, receiver, amount) -> h_swap s from hash receiver amount

(** val run_tx : state -> msg -> state res **)

let run_tx s m =
  if validate_basic m then handle s m else Err

(** val mint_params_valid : z -> z -> z -> bool **)

let mint_params_valid mx mn rc =
  (&&)
    ((&&)
      ((&&)
        ((&&) ((&&) ((&&) (Z.leb Z0 rc) (Z.leb rc p18)) (Z.leb Z0 mx))
          (Z.leb mx p18)) (Z.leb Z0 mn)) (Z.leb mn p18)) (Z.leb mn mx)

(** val mint_apply : state -> inflation -> state **)

let mint_apply s it =
  set (fun s0 -> s0.inflations) (fun f ->
    let g = fun r -> f r.inflations in
    (fun x -> { cfg = x.cfg; bank = x.bank; supply = x.supply; deposits =
    x.deposits; prov_act = x.prov_act; prov_inact = x.prov_inact; node_act =
    x.node_act; node_inact = x.node_inact; node_q = x.node_q; node_plan =
    x.node_plan; plan_count = x.plan_count; plan_act = x.plan_act;
    plan_inact = x.plan_inact; plan_prov = x.plan_prov; sub_count =
    x.sub_count; subs = x.subs; sub_q = x.sub_q; sub_acc = x.sub_acc;
    sub_node = x.sub_node; sub_plan = x.sub_plan; allocs = x.allocs;
    payouts = x.payouts; pay_q = x.pay_q; pay_acc = x.pay_acc; pay_node =
    x.pay_node; pay_acc_node = x.pay_acc_node; sess_count = x.sess_count;
    sessions = x.sessions; sess_q = x.sess_q; sess_acc = x.sess_acc;
    sess_node = x.sess_node; sess_sub = x.sess_sub; sess_alloc =
    x.sess_alloc; pars = x.pars; modified = x.modified; swaps = x.swaps;
    inflations = (g x); mint_max = x.mint_max; mint_min = x.mint_min;
    mint_rate = x.mint_rate; mint_inflation = x.mint_inflation; now = x.now;
    events = x.events })) (fun m ->
    delete0 (map_delete (gmap_partial_alter Coq_Z.eq_dec z_countable))
      it.inf_ts m)
    (set (fun s0 -> s0.mint_inflation) (fun f ->
      let z0 = fun r -> f r.mint_inflation in
      (fun x -> { cfg = x.cfg; bank = x.bank; supply = x.supply; deposits =
      x.deposits; prov_act = x.prov_act; prov_inact = x.prov_inact;
      node_act = x.node_act; node_inact = x.node_inact; node_q = x.node_q;
      node_plan = x.node_plan; plan_count = x.plan_count; plan_act =
      x.plan_act; plan_inact = x.plan_inact; plan_prov = x.plan_prov;
      sub_count = x.sub_count; subs = x.subs; sub_q = x.sub_q; sub_acc =
      x.sub_acc; sub_node = x.sub_node; sub_plan = x.sub_plan; allocs =
      x.allocs; payouts = x.payouts; pay_q = x.pay_q; pay_acc = x.pay_acc;
      pay_node = x.pay_node; pay_acc_node = x.pay_acc_node; sess_count =
      x.sess_count; sessions = x.sessions; sess_q = x.sess_q; sess_acc =
      x.sess_acc; sess_node = x.sess_node; sess_sub = x.sess_sub;
      sess_alloc = x.sess_alloc; pars = x.pars; modified = x.modified;
      swaps = x.swaps; inflations = x.inflations; mint_max = x.mint_max;
      mint_min = x.mint_min; mint_rate = x.mint_rate; mint_inflation =
      (z0 x); now = x.now; events = x.events })) (fun _ -> it.inf_min)
      (set (fun s0 -> s0.mint_rate) (fun f ->
        let z0 = fun r -> f r.mint_rate in
        (fun x -> { cfg = x.cfg; bank = x.bank; supply = x.supply; deposits =
        x.deposits; prov_act = x.prov_act; prov_inact = x.prov_inact;
        node_act = x.node_act; node_inact = x.node_inact; node_q = x.node_q;
        node_plan = x.node_plan; plan_count = x.plan_count; plan_act =
        x.plan_act; plan_inact = x.plan_inact; plan_prov = x.plan_prov;
        sub_count = x.sub_count; subs = x.subs; sub_q = x.sub_q; sub_acc =
        x.sub_acc; sub_node = x.sub_node; sub_plan = x.sub_plan; allocs =
        x.allocs; payouts = x.payouts; pay_q = x.pay_q; pay_acc = x.pay_acc;
        pay_node = x.pay_node; pay_acc_node = x.pay_acc_node; sess_count =
        x.sess_count; sessions = x.sessions; sess_q = x.sess_q; sess_acc =
        x.sess_acc; sess_node = x.sess_node; sess_sub = x.sess_sub;
        sess_alloc = x.sess_alloc; pars = x.pars; modified = x.modified;
        swaps = x.swaps; inflations = x.inflations; mint_max = x.mint_max;
        mint_min = x.mint_min; mint_rate = (z0 x); mint_inflation =
        x.mint_inflation; now = x.now; events = x.events })) (fun _ ->
        it.inf_rate)
        (set (fun s0 -> s0.mint_min) (fun f ->
          let z0 = fun r -> f r.mint_min in
          (fun x -> { cfg = x.cfg; bank = x.bank; supply = x.supply;
          deposits = x.deposits; prov_act = x.prov_act; prov_inact =
          x.prov_inact; node_act = x.node_act; node_inact = x.node_inact;
          node_q = x.node_q; node_plan = x.node_plan; plan_count =
          x.plan_count; plan_act = x.plan_act; plan_inact = x.plan_inact;
          plan_prov = x.plan_prov; sub_count = x.sub_count; subs = x.subs;
          sub_q = x.sub_q; sub_acc = x.sub_acc; sub_node = x.sub_node;
          sub_plan = x.sub_plan; allocs = x.allocs; payouts = x.payouts;
          pay_q = x.pay_q; pay_acc = x.pay_acc; pay_node = x.pay_node;
          pay_acc_node = x.pay_acc_node; sess_count = x.sess_count;
          sessions = x.sessions; sess_q = x.sess_q; sess_acc = x.sess_acc;
          sess_node = x.sess_node; sess_sub = x.sess_sub; sess_alloc =
          x.sess_alloc; pars = x.pars; modified = x.modified; swaps =
          x.swaps; inflations = x.inflations; mint_max = x.mint_max;
          mint_min = (z0 x); mint_rate = x.mint_rate; mint_inflation =
          x.mint_inflation; now = x.now; events = x.events })) (fun _ ->
          it.inf_min)
          (set (fun s0 -> s0.mint_max) (fun f ->
            let z0 = fun r -> f r.mint_max in
            (fun x -> { cfg = x.cfg; bank = x.bank; supply = x.supply;
            deposits = x.deposits; prov_act = x.prov_act; prov_inact =
            x.prov_inact; node_act = x.node_act; node_inact = x.node_inact;
            node_q = x.node_q; node_plan = x.node_plan; plan_count =
            x.plan_count; plan_act = x.plan_act; plan_inact = x.plan_inact;
            plan_prov = x.plan_prov; sub_count = x.sub_count; subs = x.subs;
            sub_q = x.sub_q; sub_acc = x.sub_acc; sub_node = x.sub_node;
            sub_plan = x.sub_plan; allocs = x.allocs; payouts = x.payouts;
            pay_q = x.pay_q; pay_acc = x.pay_acc; pay_node = x.pay_node;
            pay_acc_node = x.pay_acc_node; sess_count = x.sess_count;
            sessions = x.sessions; sess_q = x.sess_q; sess_acc = x.sess_acc;
            sess_node = x.sess_node; sess_sub = x.sess_sub; sess_alloc =
            x.sess_alloc; pars = x.pars; modified = x.modified; swaps =
            x.swaps; inflations = x.inflations; mint_max = (z0 x); mint_min =
            x.mint_min; mint_rate = x.mint_rate; mint_inflation =
            x.mint_inflation; now = x.now; events = x.events })) (fun _ ->
            it.inf_max) s))))

(** val mint_loop : inflation list -> state -> state res **)

let rec mint_loop l s =
  match l with
  | [] -> Ok s
  | it :: l' ->
    if Z.ltb s.now it.inf_ts
    then Ok s
    else rbind
           (assertp (mint_params_valid it.inf_max it.inf_min it.inf_rate))
           (fun _ -> mint_loop l' (mint_apply s it))

(** val mint_items : state -> inflation list **)

let mint_items s =
  map snd
    (sort_by (fun x y -> Z.compare (fst x) (fst y))
      (map_to_list (gmap_to_list Coq_Z.eq_dec z_countable) s.inflations))

(** val mint_begin_block : state -> state res **)

let mint_begin_block s =
  mint_loop (mint_items s) s

(** val payout_step : state -> (time * z) -> state res **)

let payout_step s e =
  match lookup0 (gmap_lookup Coq_Z.eq_dec z_countable) (snd e) s.payouts with
  | Some po ->
    let s1 =
      set (fun s0 -> s0.pay_q) (fun f ->
        let g = fun r -> f r.pay_q in
        (fun x -> { cfg = x.cfg; bank = x.bank; supply = x.supply; deposits =
        x.deposits; prov_act = x.prov_act; prov_inact = x.prov_inact;
        node_act = x.node_act; node_inact = x.node_inact; node_q = x.node_q;
        node_plan = x.node_plan; plan_count = x.plan_count; plan_act =
        x.plan_act; plan_inact = x.plan_inact; plan_prov = x.plan_prov;
        sub_count = x.sub_count; subs = x.subs; sub_q = x.sub_q; sub_acc =
        x.sub_acc; sub_node = x.sub_node; sub_plan = x.sub_plan; allocs =
        x.allocs; payouts = x.payouts; pay_q = (g x); pay_acc = x.pay_acc;
        pay_node = x.pay_node; pay_acc_node = x.pay_acc_node; sess_count =
        x.sess_count; sessions = x.sessions; sess_q = x.sess_q; sess_acc =
        x.sess_acc; sess_node = x.sess_node; sess_sub = x.sess_sub;
        sess_alloc = x.sess_alloc; pars = x.pars; modified = x.modified;
        swaps = x.swaps; inflations = x.inflations; mint_max = x.mint_max;
        mint_min = x.mint_min; mint_rate = x.mint_rate; mint_inflation =
        x.mint_inflation; now = x.now; events = x.events })) (fun q ->
        difference0
          (gset_difference (prod_eq_dec Coq_Z.eq_dec Coq_Z.eq_dec)
            (prod_countable Coq_Z.eq_dec z_countable Coq_Z.eq_dec z_countable))
          q
          (singleton0
            (gset_singleton (prod_eq_dec Coq_Z.eq_dec Coq_Z.eq_dec)
              (prod_countable Coq_Z.eq_dec z_countable Coq_Z.eq_dec
                z_countable)) (po.po_next_at, po.po_id))) s
    in
    rbind (must (proportion (snd po.po_price) s1.pars.p_node_share))
      (fun reward ->
      let d = fst po.po_price in
      rbind
        (must (z_dep_to_module s1 po.po_addr s1.cfg.c_feecoll (d, reward)))
        (fun s2 ->
        rbind (must (coin_sub po.po_price reward)) (fun payment ->
          rbind (must (z_dep_to_account s2 po.po_addr po.po_node payment))
            (fun s3 ->
            let s4 =
              emit
                (ev (String ((Ascii (true, true, false, false, true, true,
                  true, false)), (String ((Ascii (true, false, true, false,
                  true, true, true, false)), (String ((Ascii (false, true,
                  false, false, false, true, true, false)), (String ((Ascii
                  (true, true, false, false, true, true, true, false)),
                  (String ((Ascii (true, true, false, false, false, true,
                  true, false)), (String ((Ascii (false, true, false, false,
                  true, true, true, false)), (String ((Ascii (true, false,
                  false, true, false, true, true, false)), (String ((Ascii
                  (false, false, false, false, true, true, true, false)),
                  (String ((Ascii (false, false, true, false, true, true,
                  true, false)), (String ((Ascii (true, false, false, true,
                  false, true, true, false)), (String ((Ascii (true, true,
                  true, true, false, true, true, false)), (String ((Ascii
                  (false, true, true, true, false, true, true, false)),
                  (String ((Ascii (false, true, true, true, false, true,
                  false, false)), (String ((Ascii (true, false, true, false,
                  false, false, true, false)), (String ((Ascii (false, true,
                  true, false, true, true, true, false)), (String ((Ascii
                  (true, false, true, false, false, true, true, false)),
                  (String ((Ascii (false, true, true, true, false, true,
                  true, false)), (String ((Ascii (false, false, true, false,
                  true, true, true, false)), (String ((Ascii (false, false,
                  false, false, true, false, true, false)), (String ((Ascii
                  (true, false, false, false, false, true, true, false)),
                  (String ((Ascii (true, false, false, true, true, true,
                  true, false)), (String ((Ascii (false, true, true, false,
                  false, false, true, false)), (String ((Ascii (true, true,
                  true, true, false, true, true, false)), (String ((Ascii
                  (false, true, false, false, true, true, true, false)),
                  (String ((Ascii (false, false, false, false, true, false,
                  true, false)), (String ((Ascii (true, false, false, false,
                  false, true, true, false)), (String ((Ascii (true, false,
                  false, true, true, true, true, false)), (String ((Ascii
                  (true, true, true, true, false, true, true, false)),
                  (String ((Ascii (true, false, true, false, true, true,
                  true, false)), (String ((Ascii (false, false, true, false,
                  true, true, true, false)),
                  EmptyString))))))))))))))))))))))))))))))))))))))))))))))))))))))))))))
                  ((VT (canon RAcc po.po_addr)) :: ((VT
                  (canon RNode po.po_node)) :: ((VC (payment :: [])) :: ((VC
                  ((d, reward) :: [])) :: ((VZ po.po_id) :: [])))))) s3
            in
            let h = Z.sub po.po_hours (Zpos XH) in
            let nx = if Z.eqb h Z0 then tzero else Z.add po.po_next_at hOUR in
            let po' =
              set (fun p -> p.po_next_at) (fun f ->
                let t0 = fun r -> f r.po_next_at in
                (fun x -> { po_id = x.po_id; po_addr = x.po_addr; po_node =
                x.po_node; po_hours = x.po_hours; po_price = x.po_price;
                po_next_at = (t0 x) })) (fun _ -> nx)
                (set (fun p -> p.po_hours) (fun f ->
                  let z0 = fun r -> f r.po_hours in
                  (fun x -> { po_id = x.po_id; po_addr = x.po_addr; po_node =
                  x.po_node; po_hours = (z0 x); po_price = x.po_price;
                  po_next_at = x.po_next_at })) (fun _ -> h) po)
            in
            let s5 =
              set (fun s0 -> s0.payouts) (fun f ->
                let g = fun r -> f r.payouts in
                (fun x -> { cfg = x.cfg; bank = x.bank; supply = x.supply;
                deposits = x.deposits; prov_act = x.prov_act; prov_inact =
                x.prov_inact; node_act = x.node_act; node_inact =
                x.node_inact; node_q = x.node_q; node_plan = x.node_plan;
                plan_count = x.plan_count; plan_act = x.plan_act;
                plan_inact = x.plan_inact; plan_prov = x.plan_prov;
                sub_count = x.sub_count; subs = x.subs; sub_q = x.sub_q;
                sub_acc = x.sub_acc; sub_node = x.sub_node; sub_plan =
                x.sub_plan; allocs = x.allocs; payouts = (g x); pay_q =
                x.pay_q; pay_acc = x.pay_acc; pay_node = x.pay_node;
                pay_acc_node = x.pay_acc_node; sess_count = x.sess_count;
                sessions = x.sessions; sess_q = x.sess_q; sess_acc =
                x.sess_acc; sess_node = x.sess_node; sess_sub = x.sess_sub;
                sess_alloc = x.sess_alloc; pars = x.pars; modified =
                x.modified; swaps = x.swaps; inflations = x.inflations;
                mint_max = x.mint_max; mint_min = x.mint_min; mint_rate =
                x.mint_rate; mint_inflation = x.mint_inflation; now = x.now;
                events = x.events })) (fun m ->
                insert0
                  (map_insert (gmap_partial_alter Coq_Z.eq_dec z_countable))
                  po.po_id po' m) s4
            in
            Ok
            (if Z.ltb Z0 h
             then set (fun s0 -> s0.pay_q) (fun f ->
                    let g = fun r -> f r.pay_q in
                    (fun x -> { cfg = x.cfg; bank = x.bank; supply =
                    x.supply; deposits = x.deposits; prov_act = x.prov_act;
                    prov_inact = x.prov_inact; node_act = x.node_act;
                    node_inact = x.node_inact; node_q = x.node_q; node_plan =
                    x.node_plan; plan_count = x.plan_count; plan_act =
                    x.plan_act; plan_inact = x.plan_inact; plan_prov =
                    x.plan_prov; sub_count = x.sub_count; subs = x.subs;
                    sub_q = x.sub_q; sub_acc = x.sub_acc; sub_node =
                    x.sub_node; sub_plan = x.sub_plan; allocs = x.allocs;
                    payouts = x.payouts; pay_q = (g x); pay_acc = x.pay_acc;
                    pay_node = x.pay_node; pay_acc_node = x.pay_acc_node;
                    sess_count = x.sess_count; sessions = x.sessions;
                    sess_q = x.sess_q; sess_acc = x.sess_acc; sess_node =
                    x.sess_node; sess_sub = x.sess_sub; sess_alloc =
                    x.sess_alloc; pars = x.pars; modified = x.modified;
                    swaps = x.swaps; inflations = x.inflations; mint_max =
                    x.mint_max; mint_min = x.mint_min; mint_rate =
                    x.mint_rate; mint_inflation = x.mint_inflation; now =
                    x.now; events = x.events })) (fun q ->
                    union0
                      (gset_union (prod_eq_dec Coq_Z.eq_dec Coq_Z.eq_dec)
                        (prod_countable Coq_Z.eq_dec z_countable Coq_Z.eq_dec
                          z_countable)) q
                      (singleton0
                        (gset_singleton
                          (prod_eq_dec Coq_Z.eq_dec Coq_Z.eq_dec)
                          (prod_countable Coq_Z.eq_dec z_countable
                            Coq_Z.eq_dec z_countable)) (nx, po.po_id))) s5
             else s5)))))
  | None -> Panic

(** val sub_begin_block : state -> state res **)

let sub_begin_block s =
  rfold payout_step (due_z s.pay_q s.now) s

(** val clamp_max : (denom, z) gmap -> (denom, z) gmap -> (denom, z) gmap **)

let clamp_max prices bound =
  fold_left (fun p pat ->
    let (d, a) = pat in if Z.ltb a (amount_of p d) then coins_set p d a else p)
    (coins_list bound) prices

(** val clamp_min : (denom, z) gmap -> (denom, z) gmap -> (denom, z) gmap **)

let clamp_min prices bound =
  fold_left (fun p pat ->
    let (d, a) = pat in if Z.ltb (amount_of p d) a then coins_set p d a else p)
    (coins_list bound) prices

(** val node_sweep_one : state -> node -> state res **)

let node_sweep_one s n0 =
  let f = s.modified in
  let gb1 =
    if f.m_max_gb
    then clamp_max n0.nd_gb_prices s.pars.p_max_gb
    else n0.nd_gb_prices
  in
  let gb2 = if f.m_min_gb then clamp_min gb1 s.pars.p_min_gb else gb1 in
  let hr1 =
    if f.m_max_hr
    then clamp_max n0.nd_hr_prices s.pars.p_max_hr
    else n0.nd_hr_prices
  in
  let hr2 = if f.m_min_hr then clamp_min hr1 s.pars.p_min_hr else hr1 in
  let n' =
    set (fun n1 -> n1.nd_hr_prices) (fun f0 ->
      let g = fun r -> f0 r.nd_hr_prices in
      (fun x -> { nd_addr = x.nd_addr; nd_gb_prices = x.nd_gb_prices;
      nd_hr_prices = (g x); nd_url = x.nd_url; nd_inactive_at =
      x.nd_inactive_at; nd_status = x.nd_status; nd_status_at =
      x.nd_status_at })) (fun _ -> hr2)
      (set (fun n1 -> n1.nd_gb_prices) (fun f0 ->
        let g = fun r -> f0 r.nd_gb_prices in
        (fun x -> { nd_addr = x.nd_addr; nd_gb_prices = (g x); nd_hr_prices =
        x.nd_hr_prices; nd_url = x.nd_url; nd_inactive_at = x.nd_inactive_at;
        nd_status = x.nd_status; nd_status_at = x.nd_status_at })) (fun _ ->
        gb2) n0)
  in
  rbind (must (set_node s n')) (fun s1 -> Ok
    (emit
      (ev (String ((Ascii (false, true, true, true, false, true, true,
        false)), (String ((Ascii (true, true, true, true, false, true, true,
        false)), (String ((Ascii (false, false, true, false, false, true,
        true, false)), (String ((Ascii (true, false, true, false, false,
        true, true, false)), (String ((Ascii (false, true, true, true, false,
        true, false, false)), (String ((Ascii (true, false, true, false,
        false, false, true, false)), (String ((Ascii (false, true, true,
        false, true, true, true, false)), (String ((Ascii (true, false, true,
        false, false, true, true, false)), (String ((Ascii (false, true,
        true, true, false, true, true, false)), (String ((Ascii (false,
        false, true, false, true, true, true, false)), (String ((Ascii (true,
        false, true, false, true, false, true, false)), (String ((Ascii
        (false, false, false, false, true, true, true, false)), (String
        ((Ascii (false, false, true, false, false, true, true, false)),
        (String ((Ascii (true, false, false, false, false, true, true,
        false)), (String ((Ascii (false, false, true, false, true, true,
        true, false)), (String ((Ascii (true, false, true, false, false,
        true, true, false)), (String ((Ascii (false, false, true, false,
        false, false, true, false)), (String ((Ascii (true, false, true,
        false, false, true, true, false)), (String ((Ascii (false, false,
        true, false, true, true, true, false)), (String ((Ascii (true, false,
        false, false, false, true, true, false)), (String ((Ascii (true,
        false, false, true, false, true, true, false)), (String ((Ascii
        (false, false, true, true, false, true, true, false)), (String
        ((Ascii (true, true, false, false, true, true, true, false)),
        EmptyString)))))))))))))))))))))))))))))))))))))))))))))) ((VT
        (canon RNode n0.nd_addr)) :: ((VC (coins_list gb2)) :: ((VC
        (coins_list hr2)) :: [])))) s1))

(** val node_expire_one : state -> (time * addr) -> state res **)

let node_expire_one s e =
  match get_node s (snd e) with
  | Some n0 ->
    let a = n0.nd_addr in
    let s1 =
      set (fun s0 -> s0.node_q) (fun f ->
        let g = fun r -> f r.node_q in
        (fun x -> { cfg = x.cfg; bank = x.bank; supply = x.supply; deposits =
        x.deposits; prov_act = x.prov_act; prov_inact = x.prov_inact;
        node_act = x.node_act; node_inact = x.node_inact; node_q = (g x);
        node_plan = x.node_plan; plan_count = x.plan_count; plan_act =
        x.plan_act; plan_inact = x.plan_inact; plan_prov = x.plan_prov;
        sub_count = x.sub_count; subs = x.subs; sub_q = x.sub_q; sub_acc =
        x.sub_acc; sub_node = x.sub_node; sub_plan = x.sub_plan; allocs =
        x.allocs; payouts = x.payouts; pay_q = x.pay_q; pay_acc = x.pay_acc;
        pay_node = x.pay_node; pay_acc_node = x.pay_acc_node; sess_count =
        x.sess_count; sessions = x.sessions; sess_q = x.sess_q; sess_acc =
        x.sess_acc; sess_node = x.sess_node; sess_sub = x.sess_sub;
        sess_alloc = x.sess_alloc; pars = x.pars; modified = x.modified;
        swaps = x.swaps; inflations = x.inflations; mint_max = x.mint_max;
        mint_min = x.mint_min; mint_rate = x.mint_rate; mint_inflation =
        x.mint_inflation; now = x.now; events = x.events })) (fun q ->
        difference0
          (gset_difference (prod_eq_dec Coq_Z.eq_dec (list_eq_dec0 n_eq_dec))
            (prod_countable Coq_Z.eq_dec z_countable (list_eq_dec0 n_eq_dec)
              (list_countable n_eq_dec n_countable))) q
          (singleton0
            (gset_singleton
              (prod_eq_dec Coq_Z.eq_dec (list_eq_dec0 n_eq_dec))
              (prod_countable Coq_Z.eq_dec z_countable
                (list_eq_dec0 n_eq_dec) (list_countable n_eq_dec n_countable)))
            (n0.nd_inactive_at, a)))
        (set (fun s0 -> s0.node_act) (fun f ->
          let g = fun r -> f r.node_act in
          (fun x -> { cfg = x.cfg; bank = x.bank; supply = x.supply;
          deposits = x.deposits; prov_act = x.prov_act; prov_inact =
          x.prov_inact; node_act = (g x); node_inact = x.node_inact; node_q =
          x.node_q; node_plan = x.node_plan; plan_count = x.plan_count;
          plan_act = x.plan_act; plan_inact = x.plan_inact; plan_prov =
          x.plan_prov; sub_count = x.sub_count; subs = x.subs; sub_q =
          x.sub_q; sub_acc = x.sub_acc; sub_node = x.sub_node; sub_plan =
          x.sub_plan; allocs = x.allocs; payouts = x.payouts; pay_q =
          x.pay_q; pay_acc = x.pay_acc; pay_node = x.pay_node; pay_acc_node =
          x.pay_acc_node; sess_count = x.sess_count; sessions = x.sessions;
          sess_q = x.sess_q; sess_acc = x.sess_acc; sess_node = x.sess_node;
          sess_sub = x.sess_sub; sess_alloc = x.sess_alloc; pars = x.pars;
          modified = x.modified; swaps = x.swaps; inflations = x.inflations;
          mint_max = x.mint_max; mint_min = x.mint_min; mint_rate =
          x.mint_rate; mint_inflation = x.mint_inflation; now = x.now;
          events = x.events })) (fun m ->
          delete0
            (map_delete
              (gmap_partial_alter (list_eq_dec0 n_eq_dec)
                (list_countable n_eq_dec n_countable))) a m) s)
    in
    let n' =
      set (fun n1 -> n1.nd_status_at) (fun f ->
        let t0 = fun r -> f r.nd_status_at in
        (fun x -> { nd_addr = x.nd_addr; nd_gb_prices = x.nd_gb_prices;
        nd_hr_prices = x.nd_hr_prices; nd_url = x.nd_url; nd_inactive_at =
        x.nd_inactive_at; nd_status = x.nd_status; nd_status_at = (t0 x) }))
        (fun _ -> s.now)
        (set (fun n1 -> n1.nd_status) (fun f ->
          let s0 = fun r -> f r.nd_status in
          (fun x -> { nd_addr = x.nd_addr; nd_gb_prices = x.nd_gb_prices;
          nd_hr_prices = x.nd_hr_prices; nd_url = x.nd_url; nd_inactive_at =
          x.nd_inactive_at; nd_status = (s0 x); nd_status_at =
          x.nd_status_at })) (fun _ -> SInactive)
          (set (fun n1 -> n1.nd_inactive_at) (fun f ->
            let t0 = fun r -> f r.nd_inactive_at in
            (fun x -> { nd_addr = x.nd_addr; nd_gb_prices = x.nd_gb_prices;
            nd_hr_prices = x.nd_hr_prices; nd_url = x.nd_url;
            nd_inactive_at = (t0 x); nd_status = x.nd_status; nd_status_at =
            x.nd_status_at })) (fun _ -> tzero) n0))
    in
    rbind (must (set_node s1 n')) (fun s2 -> Ok
      (emit
        (ev (String ((Ascii (false, true, true, true, false, true, true,
          false)), (String ((Ascii (true, true, true, true, false, true,
          true, false)), (String ((Ascii (false, false, true, false, false,
          true, true, false)), (String ((Ascii (true, false, true, false,
          false, true, true, false)), (String ((Ascii (false, true, true,
          true, false, true, false, false)), (String ((Ascii (true, false,
          true, false, false, false, true, false)), (String ((Ascii (false,
          true, true, false, true, true, true, false)), (String ((Ascii
          (true, false, true, false, false, true, true, false)), (String
          ((Ascii (false, true, true, true, false, true, true, false)),
          (String ((Ascii (false, false, true, false, true, true, true,
          false)), (String ((Ascii (true, false, true, false, true, false,
          true, false)), (String ((Ascii (false, false, false, false, true,
          true, true, false)), (String ((Ascii (false, false, true, false,
          false, true, true, false)), (String ((Ascii (true, false, false,
          false, false, true, true, false)), (String ((Ascii (false, false,
          true, false, true, true, true, false)), (String ((Ascii (true,
          false, true, false, false, true, true, false)), (String ((Ascii
          (true, true, false, false, true, false, true, false)), (String
          ((Ascii (false, false, true, false, true, true, true, false)),
          (String ((Ascii (true, false, false, false, false, true, true,
          false)), (String ((Ascii (false, false, true, false, true, true,
          true, false)), (String ((Ascii (true, false, true, false, true,
          true, true, false)), (String ((Ascii (true, true, false, false,
          true, true, true, false)),
          EmptyString)))))))))))))))))))))))))))))))))))))))))))) ((VS
          SInactive) :: ((VT (canon RNode a)) :: []))) s2))
  | None -> Panic

(** val node_end_block : state -> state res **)

let node_end_block s =
  let f = s.modified in
  rbind
    (if (||) ((||) ((||) f.m_max_gb f.m_min_gb) f.m_max_hr) f.m_min_hr
     then rfold node_sweep_one (all_nodes s) s
     else Ok s) (fun s1 -> rfold node_expire_one (due_a s1.node_q s1.now) s1)

(** val session_inactive_hook :
    state -> z -> addr -> addr -> z -> state res **)

let session_inactive_hook s sid acc nd bytes =
  match lookup0 (gmap_lookup Coq_Z.eq_dec z_countable) sid s.sessions with
  | Some x ->
    rbind
      (ensure (bool_decide (decide_rel status_eq_dec x.ss_status SPending)))
      (fun _ ->
      match lookup0 (gmap_lookup Coq_Z.eq_dec z_countable) x.ss_sub s.subs with
      | Some sb ->
        let hourly =
          match sb.sb_kind with
          | KNode (_, _, h, _) -> negb (Z.eqb h Z0)
          | KPlan (_, _) -> false
        in
        if hourly
        then Ok s
        else (match lookup0
                      (gmap_lookup
                        (prod_eq_dec Coq_Z.eq_dec (list_eq_dec0 n_eq_dec))
                        (prod_countable Coq_Z.eq_dec z_countable
                          (list_eq_dec0 n_eq_dec)
                          (list_countable n_eq_dec n_countable))) (sb.sb_id,
                      acc) s.allocs with
              | Some al ->
                let metered =
                  match sb.sb_kind with
                  | KNode (_, g, _, dep) ->
                    if Z.eqb g Z0 then None else Some (g, dep)
                  | KPlan (_, _) -> None
                in
                rbind
                  (match metered with
                   | Some p ->
                     let (g, dep) = p in
                     rbind (int_quo (snd dep) g) (fun pr ->
                       rbind (new_coin (fst dep) pr) (fun pc ->
                         rbind (amount_for_bytes pr al.al_used) (fun prev ->
                           Ok (pc, prev))))
                   | None -> Ok ((N0, Z0), Z0)) (fun x0 ->
                  let (price, previous) = x0 in
                  rbind (int_sub al.al_granted al.al_used) (fun remaining ->
                    rbind
                      (if Z.ltb remaining bytes
                       then Ok al.al_granted
                       else int_add al.al_used bytes) (fun used' ->
                      let al' =
                        set (fun a -> a.al_used) (fun f ->
                          let z0 = fun r -> f r.al_used in
                          (fun x1 -> { al_id = x1.al_id; al_addr =
                          x1.al_addr; al_granted = x1.al_granted; al_used =
                          (z0 x1) })) (fun _ -> used') al
                      in
                      let s1 =
                        emit
                          (ev (String ((Ascii (true, true, false, false,
                            true, true, true, false)), (String ((Ascii (true,
                            false, true, false, true, true, true, false)),
                            (String ((Ascii (false, true, false, false,
                            false, true, true, false)), (String ((Ascii
                            (true, true, false, false, true, true, true,
                            false)), (String ((Ascii (true, true, false,
                            false, false, true, true, false)), (String
                            ((Ascii (false, true, false, false, true, true,
                            true, false)), (String ((Ascii (true, false,
                            false, true, false, true, true, false)), (String
                            ((Ascii (false, false, false, false, true, true,
                            true, false)), (String ((Ascii (false, false,
                            true, false, true, true, true, false)), (String
                            ((Ascii (true, false, false, true, false, true,
                            true, false)), (String ((Ascii (true, true, true,
                            true, false, true, true, false)), (String ((Ascii
                            (false, true, true, true, false, true, true,
                            false)), (String ((Ascii (false, true, true,
                            true, false, true, false, false)), (String
                            ((Ascii (true, false, true, false, false, false,
                            true, false)), (String ((Ascii (false, true,
                            true, false, true, true, true, false)), (String
                            ((Ascii (true, false, true, false, false, true,
                            true, false)), (String ((Ascii (false, true,
                            true, true, false, true, true, false)), (String
                            ((Ascii (false, false, true, false, true, true,
                            true, false)), (String ((Ascii (true, false,
                            false, false, false, false, true, false)),
                            (String ((Ascii (false, false, true, true, false,
                            true, true, false)), (String ((Ascii (false,
                            false, true, true, false, true, true, false)),
                            (String ((Ascii (true, true, true, true, false,
                            true, true, false)), (String ((Ascii (true, true,
                            false, false, false, true, true, false)), (String
                            ((Ascii (true, false, false, false, false, true,
                            true, false)), (String ((Ascii (false, false,
                            true, false, true, true, true, false)), (String
                            ((Ascii (true, false, true, false, false, true,
                            true, false)),
                            EmptyString))))))))))))))))))))))))))))))))))))))))))))))))))))
                            ((VT (canon RAcc al.al_addr)) :: ((VZ
                            al.al_granted) :: ((VZ used') :: ((VZ
                            al.al_id) :: [])))))
                          (set (fun s0 -> s0.allocs) (fun f ->
                            let g = fun r -> f r.allocs in
                            (fun x1 -> { cfg = x1.cfg; bank = x1.bank;
                            supply = x1.supply; deposits = x1.deposits;
                            prov_act = x1.prov_act; prov_inact =
                            x1.prov_inact; node_act = x1.node_act;
                            node_inact = x1.node_inact; node_q = x1.node_q;
                            node_plan = x1.node_plan; plan_count =
                            x1.plan_count; plan_act = x1.plan_act;
                            plan_inact = x1.plan_inact; plan_prov =
                            x1.plan_prov; sub_count = x1.sub_count; subs =
                            x1.subs; sub_q = x1.sub_q; sub_acc = x1.sub_acc;
                            sub_node = x1.sub_node; sub_plan = x1.sub_plan;
                            allocs = (g x1); payouts = x1.payouts; pay_q =
                            x1.pay_q; pay_acc = x1.pay_acc; pay_node =
                            x1.pay_node; pay_acc_node = x1.pay_acc_node;
                            sess_count = x1.sess_count; sessions =
                            x1.sessions; sess_q = x1.sess_q; sess_acc =
                            x1.sess_acc; sess_node = x1.sess_node; sess_sub =
                            x1.sess_sub; sess_alloc = x1.sess_alloc; pars =
                            x1.pars; modified = x1.modified; swaps =
                            x1.swaps; inflations = x1.inflations; mint_max =
                            x1.mint_max; mint_min = x1.mint_min; mint_rate =
                            x1.mint_rate; mint_inflation = x1.mint_inflation;
                            now = x1.now; events = x1.events })) (fun m ->
                            insert0
                              (map_insert
                                (gmap_partial_alter
                                  (prod_eq_dec Coq_Z.eq_dec
                                    (list_eq_dec0 n_eq_dec))
                                  (prod_countable Coq_Z.eq_dec z_countable
                                    (list_eq_dec0 n_eq_dec)
                                    (list_countable n_eq_dec n_countable))))
                              (al.al_id, al.al_addr) al' m) s)
                      in
                      (match metered with
                       | Some _ ->
                         rbind (amount_for_bytes (snd price) used')
                           (fun current ->
                           rbind (int_sub current previous) (fun diff ->
                             rbind (new_coin (fst price) diff) (fun pay ->
                               rbind
                                 (proportion (snd pay) s1.pars.p_node_share)
                                 (fun reward ->
                                 rbind
                                   (z_dep_to_module s1 acc s1.cfg.c_feecoll
                                     ((fst price), reward)) (fun s2 ->
                                   rbind (coin_sub pay reward)
                                     (fun payment ->
                                     rbind
                                       (z_dep_to_account s2 acc nd payment)
                                       (fun s3 -> Ok
                                       (emit
                                         (ev (String ((Ascii (true, true,
                                           false, false, true, true, true,
                                           false)), (String ((Ascii (true,
                                           false, true, false, true, true,
                                           true, false)), (String ((Ascii
                                           (false, true, false, false, false,
                                           true, true, false)), (String
                                           ((Ascii (true, true, false, false,
                                           true, true, true, false)), (String
                                           ((Ascii (true, true, false, false,
                                           false, true, true, false)),
                                           (String ((Ascii (false, true,
                                           false, false, true, true, true,
                                           false)), (String ((Ascii (true,
                                           false, false, true, false, true,
                                           true, false)), (String ((Ascii
                                           (false, false, false, false, true,
                                           true, true, false)), (String
                                           ((Ascii (false, false, true,
                                           false, true, true, true, false)),
                                           (String ((Ascii (true, false,
                                           false, true, false, true, true,
                                           false)), (String ((Ascii (true,
                                           true, true, true, false, true,
                                           true, false)), (String ((Ascii
                                           (false, true, true, true, false,
                                           true, true, false)), (String
                                           ((Ascii (false, true, true, true,
                                           false, true, false, false)),
                                           (String ((Ascii (true, false,
                                           true, false, false, false, true,
                                           false)), (String ((Ascii (false,
                                           true, true, false, true, true,
                                           true, false)), (String ((Ascii
                                           (true, false, true, false, false,
                                           true, true, false)), (String
                                           ((Ascii (false, true, true, true,
                                           false, true, true, false)),
                                           (String ((Ascii (false, false,
                                           true, false, true, true, true,
                                           false)), (String ((Ascii (false,
                                           false, false, false, true, false,
                                           true, false)), (String ((Ascii
                                           (true, false, false, false, false,
                                           true, true, false)), (String
                                           ((Ascii (true, false, false, true,
                                           true, true, true, false)), (String
                                           ((Ascii (false, true, true, false,
                                           false, false, true, false)),
                                           (String ((Ascii (true, true, true,
                                           true, false, true, true, false)),
                                           (String ((Ascii (false, true,
                                           false, false, true, true, true,
                                           false)), (String ((Ascii (true,
                                           true, false, false, true, false,
                                           true, false)), (String ((Ascii
                                           (true, false, true, false, false,
                                           true, true, false)), (String
                                           ((Ascii (true, true, false, false,
                                           true, true, true, false)), (String
                                           ((Ascii (true, true, false, false,
                                           true, true, true, false)), (String
                                           ((Ascii (true, false, false, true,
                                           false, true, true, false)),
                                           (String ((Ascii (true, true, true,
                                           true, false, true, true, false)),
                                           (String ((Ascii (false, true,
                                           true, true, false, true, true,
                                           false)),
                                           EmptyString))))))))))))))))))))))))))))))))))))))))))))))))))))))))))))))
                                           ((VT
                                           (canon RAcc x.ss_addr)) :: ((VT
                                           (canon RNode x.ss_node)) :: ((VC
                                           (payment :: [])) :: ((VC
                                           (((fst price),
                                           reward) :: [])) :: ((VZ
                                           x.ss_id) :: ((VZ
                                           x.ss_sub) :: []))))))) s3))))))))
                       | None -> Ok s1))))
              | None -> Err)
      | None -> Err)
  | None -> Err

(** val session_expire_one : state -> (time * z) -> state res **)

let session_expire_one s e =
  match lookup0 (gmap_lookup Coq_Z.eq_dec z_countable) (snd e) s.sessions with
  | Some x ->
    let s0 =
      set (fun s0 -> s0.sess_q) (fun f ->
        let g = fun r -> f r.sess_q in
        (fun x0 -> { cfg = x0.cfg; bank = x0.bank; supply = x0.supply;
        deposits = x0.deposits; prov_act = x0.prov_act; prov_inact =
        x0.prov_inact; node_act = x0.node_act; node_inact = x0.node_inact;
        node_q = x0.node_q; node_plan = x0.node_plan; plan_count =
        x0.plan_count; plan_act = x0.plan_act; plan_inact = x0.plan_inact;
        plan_prov = x0.plan_prov; sub_count = x0.sub_count; subs = x0.subs;
        sub_q = x0.sub_q; sub_acc = x0.sub_acc; sub_node = x0.sub_node;
        sub_plan = x0.sub_plan; allocs = x0.allocs; payouts = x0.payouts;
        pay_q = x0.pay_q; pay_acc = x0.pay_acc; pay_node = x0.pay_node;
        pay_acc_node = x0.pay_acc_node; sess_count = x0.sess_count;
        sessions = x0.sessions; sess_q = (g x0); sess_acc = x0.sess_acc;
        sess_node = x0.sess_node; sess_sub = x0.sess_sub; sess_alloc =
        x0.sess_alloc; pars = x0.pars; modified = x0.modified; swaps =
        x0.swaps; inflations = x0.inflations; mint_max = x0.mint_max;
        mint_min = x0.mint_min; mint_rate = x0.mint_rate; mint_inflation =
        x0.mint_inflation; now = x0.now; events = x0.events })) (fun q ->
        difference0
          (gset_difference (prod_eq_dec Coq_Z.eq_dec Coq_Z.eq_dec)
            (prod_countable Coq_Z.eq_dec z_countable Coq_Z.eq_dec z_countable))
          q
          (singleton0
            (gset_singleton (prod_eq_dec Coq_Z.eq_dec Coq_Z.eq_dec)
              (prod_countable Coq_Z.eq_dec z_countable Coq_Z.eq_dec
                z_countable)) (x.ss_inactive_at, x.ss_id))) s
    in
    if bool_decide (decide_rel status_eq_dec x.ss_status SActive)
    then let t0 = Z.add s.now s.pars.p_sess_delay in
         let x' =
           set (fun s1 -> s1.ss_status_at) (fun f ->
             let t1 = fun r -> f r.ss_status_at in
             (fun x0 -> { ss_id = x0.ss_id; ss_sub = x0.ss_sub; ss_node =
             x0.ss_node; ss_addr = x0.ss_addr; ss_up = x0.ss_up; ss_down =
             x0.ss_down; ss_duration = x0.ss_duration; ss_inactive_at =
             x0.ss_inactive_at; ss_status = x0.ss_status; ss_status_at =
             (t1 x0) })) (fun _ -> s.now)
             (set (fun s1 -> s1.ss_status) (fun f ->
               let s1 = fun r -> f r.ss_status in
               (fun x0 -> { ss_id = x0.ss_id; ss_sub = x0.ss_sub; ss_node =
               x0.ss_node; ss_addr = x0.ss_addr; ss_up = x0.ss_up; ss_down =
               x0.ss_down; ss_duration = x0.ss_duration; ss_inactive_at =
               x0.ss_inactive_at; ss_status = (s1 x0); ss_status_at =
               x0.ss_status_at })) (fun _ -> SPending)
               (set (fun s1 -> s1.ss_inactive_at) (fun f ->
                 let t1 = fun r -> f r.ss_inactive_at in
                 (fun x0 -> { ss_id = x0.ss_id; ss_sub = x0.ss_sub; ss_node =
                 x0.ss_node; ss_addr = x0.ss_addr; ss_up = x0.ss_up;
                 ss_down = x0.ss_down; ss_duration = x0.ss_duration;
                 ss_inactive_at = (t1 x0); ss_status = x0.ss_status;
                 ss_status_at = x0.ss_status_at })) (fun _ -> t0) x))
         in
         Ok
         (emit
           (ev (String ((Ascii (true, true, false, false, true, true, true,
             false)), (String ((Ascii (true, false, true, false, false, true,
             true, false)), (String ((Ascii (true, true, false, false, true,
             true, true, false)), (String ((Ascii (true, true, false, false,
             true, true, true, false)), (String ((Ascii (true, false, false,
             true, false, true, true, false)), (String ((Ascii (true, true,
             true, true, false, true, true, false)), (String ((Ascii (false,
             true, true, true, false, true, true, false)), (String ((Ascii
             (false, true, true, true, false, true, false, false)), (String
             ((Ascii (true, false, true, false, false, false, true, false)),
             (String ((Ascii (false, true, true, false, true, true, true,
             false)), (String ((Ascii (true, false, true, false, false, true,
             true, false)), (String ((Ascii (false, true, true, true, false,
             true, true, false)), (String ((Ascii (false, false, true, false,
             true, true, true, false)), (String ((Ascii (true, false, true,
             false, true, false, true, false)), (String ((Ascii (false,
             false, false, false, true, true, true, false)), (String ((Ascii
             (false, false, true, false, false, true, true, false)), (String
             ((Ascii (true, false, false, false, false, true, true, false)),
             (String ((Ascii (false, false, true, false, true, true, true,
             false)), (String ((Ascii (true, false, true, false, false, true,
             true, false)), (String ((Ascii (true, true, false, false, true,
             false, true, false)), (String ((Ascii (false, false, true,
             false, true, true, true, false)), (String ((Ascii (true, false,
             false, false, false, true, true, false)), (String ((Ascii
             (false, false, true, false, true, true, true, false)), (String
             ((Ascii (true, false, true, false, true, true, true, false)),
             (String ((Ascii (true, true, false, false, true, true, true,
             false)),
             EmptyString))))))))))))))))))))))))))))))))))))))))))))))))))
             ((VS SPending) :: ((VT (canon RAcc x.ss_addr)) :: ((VT
             (canon RNode x.ss_node)) :: ((VZ x.ss_id) :: ((VZ
             x.ss_sub) :: []))))))
           (set (fun s1 -> s1.sess_q) (fun f ->
             let g = fun r -> f r.sess_q in
             (fun x0 -> { cfg = x0.cfg; bank = x0.bank; supply = x0.supply;
             deposits = x0.deposits; prov_act = x0.prov_act; prov_inact =
             x0.prov_inact; node_act = x0.node_act; node_inact =
             x0.node_inact; node_q = x0.node_q; node_plan = x0.node_plan;
             plan_count = x0.plan_count; plan_act = x0.plan_act; plan_inact =
             x0.plan_inact; plan_prov = x0.plan_prov; sub_count =
             x0.sub_count; subs = x0.subs; sub_q = x0.sub_q; sub_acc =
             x0.sub_acc; sub_node = x0.sub_node; sub_plan = x0.sub_plan;
             allocs = x0.allocs; payouts = x0.payouts; pay_q = x0.pay_q;
             pay_acc = x0.pay_acc; pay_node = x0.pay_node; pay_acc_node =
             x0.pay_acc_node; sess_count = x0.sess_count; sessions =
             x0.sessions; sess_q = (g x0); sess_acc = x0.sess_acc;
             sess_node = x0.sess_node; sess_sub = x0.sess_sub; sess_alloc =
             x0.sess_alloc; pars = x0.pars; modified = x0.modified; swaps =
             x0.swaps; inflations = x0.inflations; mint_max = x0.mint_max;
             mint_min = x0.mint_min; mint_rate = x0.mint_rate;
             mint_inflation = x0.mint_inflation; now = x0.now; events =
             x0.events })) (fun q ->
             union0
               (gset_union (prod_eq_dec Coq_Z.eq_dec Coq_Z.eq_dec)
                 (prod_countable Coq_Z.eq_dec z_countable Coq_Z.eq_dec
                   z_countable)) q
               (singleton0
                 (gset_singleton (prod_eq_dec Coq_Z.eq_dec Coq_Z.eq_dec)
                   (prod_countable Coq_Z.eq_dec z_countable Coq_Z.eq_dec
                     z_countable)) (t0, x.ss_id)))
             (set (fun s1 -> s1.sessions) (fun f ->
               let g = fun r -> f r.sessions in
               (fun x0 -> { cfg = x0.cfg; bank = x0.bank; supply = x0.supply;
               deposits = x0.deposits; prov_act = x0.prov_act; prov_inact =
               x0.prov_inact; node_act = x0.node_act; node_inact =
               x0.node_inact; node_q = x0.node_q; node_plan = x0.node_plan;
               plan_count = x0.plan_count; plan_act = x0.plan_act;
               plan_inact = x0.plan_inact; plan_prov = x0.plan_prov;
               sub_count = x0.sub_count; subs = x0.subs; sub_q = x0.sub_q;
               sub_acc = x0.sub_acc; sub_node = x0.sub_node; sub_plan =
               x0.sub_plan; allocs = x0.allocs; payouts = x0.payouts; pay_q =
               x0.pay_q; pay_acc = x0.pay_acc; pay_node = x0.pay_node;
               pay_acc_node = x0.pay_acc_node; sess_count = x0.sess_count;
               sessions = (g x0); sess_q = x0.sess_q; sess_acc = x0.sess_acc;
               sess_node = x0.sess_node; sess_sub = x0.sess_sub; sess_alloc =
               x0.sess_alloc; pars = x0.pars; modified = x0.modified; swaps =
               x0.swaps; inflations = x0.inflations; mint_max = x0.mint_max;
               mint_min = x0.mint_min; mint_rate = x0.mint_rate;
               mint_inflation = x0.mint_inflation; now = x0.now; events =
               x0.events })) (fun m ->
               insert0
                 (map_insert (gmap_partial_alter Coq_Z.eq_dec z_countable))
                 x.ss_id x' m) s0)))
    else rbind (int_add x.ss_up x.ss_down) (fun total ->
           rbind
             (must
               (session_inactive_hook s0 x.ss_id x.ss_addr x.ss_node total))
             (fun s1 -> Ok
             (emit
               (ev (String ((Ascii (true, true, false, false, true, true,
                 true, false)), (String ((Ascii (true, false, true, false,
                 false, true, true, false)), (String ((Ascii (true, true,
                 false, false, true, true, true, false)), (String ((Ascii
                 (true, true, false, false, true, true, true, false)),
                 (String ((Ascii (true, false, false, true, false, true,
                 true, false)), (String ((Ascii (true, true, true, true,
                 false, true, true, false)), (String ((Ascii (false, true,
                 true, true, false, true, true, false)), (String ((Ascii
                 (false, true, true, true, false, true, false, false)),
                 (String ((Ascii (true, false, true, false, false, false,
                 true, false)), (String ((Ascii (false, true, true, false,
                 true, true, true, false)), (String ((Ascii (true, false,
                 true, false, false, true, true, false)), (String ((Ascii
                 (false, true, true, true, false, true, true, false)),
                 (String ((Ascii (false, false, true, false, true, true,
                 true, false)), (String ((Ascii (true, false, true, false,
                 true, false, true, false)), (String ((Ascii (false, false,
                 false, false, true, true, true, false)), (String ((Ascii
                 (false, false, true, false, false, true, true, false)),
                 (String ((Ascii (true, false, false, false, false, true,
                 true, false)), (String ((Ascii (false, false, true, false,
                 true, true, true, false)), (String ((Ascii (true, false,
                 true, false, false, true, true, false)), (String ((Ascii
                 (true, true, false, false, true, false, true, false)),
                 (String ((Ascii (false, false, true, false, true, true,
                 true, false)), (String ((Ascii (true, false, false, false,
                 false, true, true, false)), (String ((Ascii (false, false,
                 true, false, true, true, true, false)), (String ((Ascii
                 (true, false, true, false, true, true, true, false)),
                 (String ((Ascii (true, true, false, false, true, true, true,
                 false)),
                 EmptyString))))))))))))))))))))))))))))))))))))))))))))))))))
                 ((VS SInactive) :: ((VT (canon RAcc x.ss_addr)) :: ((VT
                 (canon RNode x.ss_node)) :: ((VZ x.ss_id) :: ((VZ
                 x.ss_sub) :: []))))))
               (set (fun s2 -> s2.sess_alloc) (fun f ->
                 let g = fun r -> f r.sess_alloc in
                 (fun x0 -> { cfg = x0.cfg; bank = x0.bank; supply =
                 x0.supply; deposits = x0.deposits; prov_act = x0.prov_act;
                 prov_inact = x0.prov_inact; node_act = x0.node_act;
                 node_inact = x0.node_inact; node_q = x0.node_q; node_plan =
                 x0.node_plan; plan_count = x0.plan_count; plan_act =
                 x0.plan_act; plan_inact = x0.plan_inact; plan_prov =
                 x0.plan_prov; sub_count = x0.sub_count; subs = x0.subs;
                 sub_q = x0.sub_q; sub_acc = x0.sub_acc; sub_node =
                 x0.sub_node; sub_plan = x0.sub_plan; allocs = x0.allocs;
                 payouts = x0.payouts; pay_q = x0.pay_q; pay_acc =
                 x0.pay_acc; pay_node = x0.pay_node; pay_acc_node =
                 x0.pay_acc_node; sess_count = x0.sess_count; sessions =
                 x0.sessions; sess_q = x0.sess_q; sess_acc = x0.sess_acc;
                 sess_node = x0.sess_node; sess_sub = x0.sess_sub;
                 sess_alloc = (g x0); pars = x0.pars; modified = x0.modified;
                 swaps = x0.swaps; inflations = x0.inflations; mint_max =
                 x0.mint_max; mint_min = x0.mint_min; mint_rate =
                 x0.mint_rate; mint_inflation = x0.mint_inflation; now =
                 x0.now; events = x0.events })) (fun i ->
                 difference0
                   (gset_difference
                     (prod_eq_dec
                       (prod_eq_dec Coq_Z.eq_dec (list_eq_dec0 n_eq_dec))
                       Coq_Z.eq_dec)
                     (prod_countable
                       (prod_eq_dec Coq_Z.eq_dec (list_eq_dec0 n_eq_dec))
                       (prod_countable Coq_Z.eq_dec z_countable
                         (list_eq_dec0 n_eq_dec)
                         (list_countable n_eq_dec n_countable)) Coq_Z.eq_dec
                       z_countable)) i
                   (singleton0
                     (gset_singleton
                       (prod_eq_dec
                         (prod_eq_dec Coq_Z.eq_dec (list_eq_dec0 n_eq_dec))
                         Coq_Z.eq_dec)
                       (prod_countable
                         (prod_eq_dec Coq_Z.eq_dec (list_eq_dec0 n_eq_dec))
                         (prod_countable Coq_Z.eq_dec z_countable
                           (list_eq_dec0 n_eq_dec)
                           (list_countable n_eq_dec n_countable))
                         Coq_Z.eq_dec z_countable)) ((x.ss_sub, x.ss_addr),
                     x.ss_id)))
                 (set (fun s2 -> s2.sess_sub) (fun f ->
                   let g = fun r -> f r.sess_sub in
                   (fun x0 -> { cfg = x0.cfg; bank = x0.bank; supply =
                   x0.supply; deposits = x0.deposits; prov_act = x0.prov_act;
                   prov_inact = x0.prov_inact; node_act = x0.node_act;
                   node_inact = x0.node_inact; node_q = x0.node_q;
                   node_plan = x0.node_plan; plan_count = x0.plan_count;
                   plan_act = x0.plan_act; plan_inact = x0.plan_inact;
                   plan_prov = x0.plan_prov; sub_count = x0.sub_count; subs =
                   x0.subs; sub_q = x0.sub_q; sub_acc = x0.sub_acc;
                   sub_node = x0.sub_node; sub_plan = x0.sub_plan; allocs =
                   x0.allocs; payouts = x0.payouts; pay_q = x0.pay_q;
                   pay_acc = x0.pay_acc; pay_node = x0.pay_node;
                   pay_acc_node = x0.pay_acc_node; sess_count =
                   x0.sess_count; sessions = x0.sessions; sess_q = x0.sess_q;
                   sess_acc = x0.sess_acc; sess_node = x0.sess_node;
                   sess_sub = (g x0); sess_alloc = x0.sess_alloc; pars =
                   x0.pars; modified = x0.modified; swaps = x0.swaps;
                   inflations = x0.inflations; mint_max = x0.mint_max;
                   mint_min = x0.mint_min; mint_rate = x0.mint_rate;
                   mint_inflation = x0.mint_inflation; now = x0.now; events =
                   x0.events })) (fun i ->
                   difference0
                     (gset_difference (prod_eq_dec Coq_Z.eq_dec Coq_Z.eq_dec)
                       (prod_countable Coq_Z.eq_dec z_countable Coq_Z.eq_dec
                         z_countable)) i
                     (singleton0
                       (gset_singleton
                         (prod_eq_dec Coq_Z.eq_dec Coq_Z.eq_dec)
                         (prod_countable Coq_Z.eq_dec z_countable
                           Coq_Z.eq_dec z_countable)) (x.ss_sub, x.ss_id)))
                   (set (fun s2 -> s2.sess_node) (fun f ->
                     let g = fun r -> f r.sess_node in
                     (fun x0 -> { cfg = x0.cfg; bank = x0.bank; supply =
                     x0.supply; deposits = x0.deposits; prov_act =
                     x0.prov_act; prov_inact = x0.prov_inact; node_act =
                     x0.node_act; node_inact = x0.node_inact; node_q =
                     x0.node_q; node_plan = x0.node_plan; plan_count =
                     x0.plan_count; plan_act = x0.plan_act; plan_inact =
                     x0.plan_inact; plan_prov = x0.plan_prov; sub_count =
                     x0.sub_count; subs = x0.subs; sub_q = x0.sub_q;
                     sub_acc = x0.sub_acc; sub_node = x0.sub_node; sub_plan =
                     x0.sub_plan; allocs = x0.allocs; payouts = x0.payouts;
                     pay_q = x0.pay_q; pay_acc = x0.pay_acc; pay_node =
                     x0.pay_node; pay_acc_node = x0.pay_acc_node;
                     sess_count = x0.sess_count; sessions = x0.sessions;
                     sess_q = x0.sess_q; sess_acc = x0.sess_acc; sess_node =
                     (g x0); sess_sub = x0.sess_sub; sess_alloc =
                     x0.sess_alloc; pars = x0.pars; modified = x0.modified;
                     swaps = x0.swaps; inflations = x0.inflations; mint_max =
                     x0.mint_max; mint_min = x0.mint_min; mint_rate =
                     x0.mint_rate; mint_inflation = x0.mint_inflation; now =
                     x0.now; events = x0.events })) (fun i ->
                     difference0
                       (gset_difference
                         (prod_eq_dec (list_eq_dec0 n_eq_dec) Coq_Z.eq_dec)
                         (prod_countable (list_eq_dec0 n_eq_dec)
                           (list_countable n_eq_dec n_countable) Coq_Z.eq_dec
                           z_countable)) i
                       (singleton0
                         (gset_singleton
                           (prod_eq_dec (list_eq_dec0 n_eq_dec) Coq_Z.eq_dec)
                           (prod_countable (list_eq_dec0 n_eq_dec)
                             (list_countable n_eq_dec n_countable)
                             Coq_Z.eq_dec z_countable)) (x.ss_node, x.ss_id)))
                     (set (fun s2 -> s2.sess_acc) (fun f ->
                       let g = fun r -> f r.sess_acc in
                       (fun x0 -> { cfg = x0.cfg; bank = x0.bank; supply =
                       x0.supply; deposits = x0.deposits; prov_act =
                       x0.prov_act; prov_inact = x0.prov_inact; node_act =
                       x0.node_act; node_inact = x0.node_inact; node_q =
                       x0.node_q; node_plan = x0.node_plan; plan_count =
                       x0.plan_count; plan_act = x0.plan_act; plan_inact =
                       x0.plan_inact; plan_prov = x0.plan_prov; sub_count =
                       x0.sub_count; subs = x0.subs; sub_q = x0.sub_q;
                       sub_acc = x0.sub_acc; sub_node = x0.sub_node;
                       sub_plan = x0.sub_plan; allocs = x0.allocs; payouts =
                       x0.payouts; pay_q = x0.pay_q; pay_acc = x0.pay_acc;
                       pay_node = x0.pay_node; pay_acc_node =
                       x0.pay_acc_node; sess_count = x0.sess_count;
                       sessions = x0.sessions; sess_q = x0.sess_q; sess_acc =
                       (g x0); sess_node = x0.sess_node; sess_sub =
                       x0.sess_sub; sess_alloc = x0.sess_alloc; pars =
                       x0.pars; modified = x0.modified; swaps = x0.swaps;
                       inflations = x0.inflations; mint_max = x0.mint_max;
                       mint_min = x0.mint_min; mint_rate = x0.mint_rate;
                       mint_inflation = x0.mint_inflation; now = x0.now;
                       events = x0.events })) (fun i ->
                       difference0
                         (gset_difference
                           (prod_eq_dec (list_eq_dec0 n_eq_dec) Coq_Z.eq_dec)
                           (prod_countable (list_eq_dec0 n_eq_dec)
                             (list_countable n_eq_dec n_countable)
                             Coq_Z.eq_dec z_countable)) i
                         (singleton0
                           (gset_singleton
                             (prod_eq_dec (list_eq_dec0 n_eq_dec)
                               Coq_Z.eq_dec)
                             (prod_countable (list_eq_dec0 n_eq_dec)
                               (list_countable n_eq_dec n_countable)
                               Coq_Z.eq_dec z_countable)) (x.ss_addr,
                           x.ss_id)))
                       (set (fun s2 -> s2.sessions) (fun f ->
                         let g = fun r -> f r.sessions in
                         (fun x0 -> { cfg = x0.cfg; bank = x0.bank; supply =
                         x0.supply; deposits = x0.deposits; prov_act =
                         x0.prov_act; prov_inact = x0.prov_inact; node_act =
                         x0.node_act; node_inact = x0.node_inact; node_q =
                         x0.node_q; node_plan = x0.node_plan; plan_count =
                         x0.plan_count; plan_act = x0.plan_act; plan_inact =
                         x0.plan_inact; plan_prov = x0.plan_prov; sub_count =
                         x0.sub_count; subs = x0.subs; sub_q = x0.sub_q;
                         sub_acc = x0.sub_acc; sub_node = x0.sub_node;
                         sub_plan = x0.sub_plan; allocs = x0.allocs;
                         payouts = x0.payouts; pay_q = x0.pay_q; pay_acc =
                         x0.pay_acc; pay_node = x0.pay_node; pay_acc_node =
                         x0.pay_acc_node; sess_count = x0.sess_count;
                         sessions = (g x0); sess_q = x0.sess_q; sess_acc =
                         x0.sess_acc; sess_node = x0.sess_node; sess_sub =
                         x0.sess_sub; sess_alloc = x0.sess_alloc; pars =
                         x0.pars; modified = x0.modified; swaps = x0.swaps;
                         inflations = x0.inflations; mint_max = x0.mint_max;
                         mint_min = x0.mint_min; mint_rate = x0.mint_rate;
                         mint_inflation = x0.mint_inflation; now = x0.now;
                         events = x0.events })) (fun m ->
                         delete0
                           (map_delete
                             (gmap_partial_alter Coq_Z.eq_dec z_countable))
                           x.ss_id m) s1))))))))
  | None -> Panic

(** val session_end_block : state -> state res **)

let session_end_block s =
  rfold session_expire_one (due_z s.sess_q s.now) s

(** val sub_refund : state -> subscription -> state res **)

let sub_refund s sb =
  match sb.sb_kind with
  | KNode (_, g, h, dep) ->
    rbind
      (if negb (Z.eqb g Z0)
       then rbind (int_quo (snd dep) g) (fun pr ->
              rbind (new_coin (fst dep) pr) (fun _ ->
                match lookup0
                        (gmap_lookup
                          (prod_eq_dec Coq_Z.eq_dec (list_eq_dec0 n_eq_dec))
                          (prod_countable Coq_Z.eq_dec z_countable
                            (list_eq_dec0 n_eq_dec)
                            (list_countable n_eq_dec n_countable)))
                        (sb.sb_id, sb.sb_addr) s.allocs with
                | Some al ->
                  rbind (amount_for_bytes pr al.al_used) (fun paid ->
                    rbind (int_sub (snd dep) paid) (fun r ->
                      rbind (new_coin (fst dep) r) (fun refund ->
                        rbind
                          (must
                            (if Z.eqb (snd refund) Z0
                             then Ok s
                             else dep_to_account s sb.sb_addr sb.sb_addr
                                    (fst refund) (snd refund))) (fun s' -> Ok
                          (emit
                            (ev (String ((Ascii (true, true, false, false,
                              true, true, true, false)), (String ((Ascii
                              (true, false, true, false, true, true, true,
                              false)), (String ((Ascii (false, true, false,
                              false, false, true, true, false)), (String
                              ((Ascii (true, true, false, false, true, true,
                              true, false)), (String ((Ascii (true, true,
                              false, false, false, true, true, false)),
                              (String ((Ascii (false, true, false, false,
                              true, true, true, false)), (String ((Ascii
                              (true, false, false, true, false, true, true,
                              false)), (String ((Ascii (false, false, false,
                              false, true, true, true, false)), (String
                              ((Ascii (false, false, true, false, true, true,
                              true, false)), (String ((Ascii (true, false,
                              false, true, false, true, true, false)),
                              (String ((Ascii (true, true, true, true, false,
                              true, true, false)), (String ((Ascii (false,
                              true, true, true, false, true, true, false)),
                              (String ((Ascii (false, true, true, true,
                              false, true, false, false)), (String ((Ascii
                              (true, false, true, false, false, false, true,
                              false)), (String ((Ascii (false, true, true,
                              false, true, true, true, false)), (String
                              ((Ascii (true, false, true, false, false, true,
                              true, false)), (String ((Ascii (false, true,
                              true, true, false, true, true, false)), (String
                              ((Ascii (false, false, true, false, true, true,
                              true, false)), (String ((Ascii (false, true,
                              false, false, true, false, true, false)),
                              (String ((Ascii (true, false, true, false,
                              false, true, true, false)), (String ((Ascii
                              (false, true, true, false, false, true, true,
                              false)), (String ((Ascii (true, false, true,
                              false, true, true, true, false)), (String
                              ((Ascii (false, true, true, true, false, true,
                              true, false)), (String ((Ascii (false, false,
                              true, false, false, true, true, false)),
                              EmptyString))))))))))))))))))))))))))))))))))))))))))))))))
                              ((VT (canon RAcc sb.sb_addr)) :: ((VC
                              (refund :: [])) :: ((VZ sb.sb_id) :: [])))) s')))))
                | None -> Panic))
       else Ok s) (fun s1 ->
      if negb (Z.eqb h Z0)
      then (match lookup0 (gmap_lookup Coq_Z.eq_dec z_countable) sb.sb_id
                    s1.payouts with
            | Some po ->
              rbind (int_mul (snd po.po_price) po.po_hours) (fun r ->
                rbind (new_coin (fst po.po_price) r) (fun refund ->
                  rbind
                    (must
                      (if Z.eqb (snd refund) Z0
                       then Ok s1
                       else dep_to_account s1 po.po_addr po.po_addr
                              (fst refund) (snd refund))) (fun s' -> Ok
                    (emit
                      (ev (String ((Ascii (true, true, false, false, true,
                        true, true, false)), (String ((Ascii (true, false,
                        true, false, true, true, true, false)), (String
                        ((Ascii (false, true, false, false, false, true,
                        true, false)), (String ((Ascii (true, true, false,
                        false, true, true, true, false)), (String ((Ascii
                        (true, true, false, false, false, true, true,
                        false)), (String ((Ascii (false, true, false, false,
                        true, true, true, false)), (String ((Ascii (true,
                        false, false, true, false, true, true, false)),
                        (String ((Ascii (false, false, false, false, true,
                        true, true, false)), (String ((Ascii (false, false,
                        true, false, true, true, true, false)), (String
                        ((Ascii (true, false, false, true, false, true, true,
                        false)), (String ((Ascii (true, true, true, true,
                        false, true, true, false)), (String ((Ascii (false,
                        true, true, true, false, true, true, false)), (String
                        ((Ascii (false, true, true, true, false, true, false,
                        false)), (String ((Ascii (true, false, true, false,
                        false, false, true, false)), (String ((Ascii (false,
                        true, true, false, true, true, true, false)), (String
                        ((Ascii (true, false, true, false, false, true, true,
                        false)), (String ((Ascii (false, true, true, true,
                        false, true, true, false)), (String ((Ascii (false,
                        false, true, false, true, true, true, false)),
                        (String ((Ascii (false, true, false, false, true,
                        false, true, false)), (String ((Ascii (true, false,
                        true, false, false, true, true, false)), (String
                        ((Ascii (false, true, true, false, false, true, true,
                        false)), (String ((Ascii (true, false, true, false,
                        true, true, true, false)), (String ((Ascii (false,
                        true, true, true, false, true, true, false)), (String
                        ((Ascii (false, false, true, false, false, true,
                        true, false)),
                        EmptyString))))))))))))))))))))))))))))))))))))))))))))))))
                        ((VT (canon RAcc sb.sb_addr)) :: ((VC
                        (refund :: [])) :: ((VZ sb.sb_id) :: [])))) s'))))
            | None -> Panic)
      else Ok s1)
  | KPlan (_, _) -> Ok s

(** val sub_cleanup : state -> subscription -> state **)

let sub_cleanup s sb =
  match sb.sb_kind with
  | KNode (nd, _, _, _) ->
    set (fun s0 -> s0.sub_acc) (fun f ->
      let g = fun r -> f r.sub_acc in
      (fun x -> { cfg = x.cfg; bank = x.bank; supply = x.supply; deposits =
      x.deposits; prov_act = x.prov_act; prov_inact = x.prov_inact;
      node_act = x.node_act; node_inact = x.node_inact; node_q = x.node_q;
      node_plan = x.node_plan; plan_count = x.plan_count; plan_act =
      x.plan_act; plan_inact = x.plan_inact; plan_prov = x.plan_prov;
      sub_count = x.sub_count; subs = x.subs; sub_q = x.sub_q; sub_acc =
      (g x); sub_node = x.sub_node; sub_plan = x.sub_plan; allocs = x.allocs;
      payouts = x.payouts; pay_q = x.pay_q; pay_acc = x.pay_acc; pay_node =
      x.pay_node; pay_acc_node = x.pay_acc_node; sess_count = x.sess_count;
      sessions = x.sessions; sess_q = x.sess_q; sess_acc = x.sess_acc;
      sess_node = x.sess_node; sess_sub = x.sess_sub; sess_alloc =
      x.sess_alloc; pars = x.pars; modified = x.modified; swaps = x.swaps;
      inflations = x.inflations; mint_max = x.mint_max; mint_min =
      x.mint_min; mint_rate = x.mint_rate; mint_inflation = x.mint_inflation;
      now = x.now; events = x.events })) (fun i ->
      difference0
        (gset_difference (prod_eq_dec (list_eq_dec0 n_eq_dec) Coq_Z.eq_dec)
          (prod_countable (list_eq_dec0 n_eq_dec)
            (list_countable n_eq_dec n_countable) Coq_Z.eq_dec z_countable))
        i
        (singleton0
          (gset_singleton (prod_eq_dec (list_eq_dec0 n_eq_dec) Coq_Z.eq_dec)
            (prod_countable (list_eq_dec0 n_eq_dec)
              (list_countable n_eq_dec n_countable) Coq_Z.eq_dec z_countable))
          (sb.sb_addr, sb.sb_id)))
      (set (fun s0 -> s0.allocs) (fun f ->
        let g = fun r -> f r.allocs in
        (fun x -> { cfg = x.cfg; bank = x.bank; supply = x.supply; deposits =
        x.deposits; prov_act = x.prov_act; prov_inact = x.prov_inact;
        node_act = x.node_act; node_inact = x.node_inact; node_q = x.node_q;
        node_plan = x.node_plan; plan_count = x.plan_count; plan_act =
        x.plan_act; plan_inact = x.plan_inact; plan_prov = x.plan_prov;
        sub_count = x.sub_count; subs = x.subs; sub_q = x.sub_q; sub_acc =
        x.sub_acc; sub_node = x.sub_node; sub_plan = x.sub_plan; allocs =
        (g x); payouts = x.payouts; pay_q = x.pay_q; pay_acc = x.pay_acc;
        pay_node = x.pay_node; pay_acc_node = x.pay_acc_node; sess_count =
        x.sess_count; sessions = x.sessions; sess_q = x.sess_q; sess_acc =
        x.sess_acc; sess_node = x.sess_node; sess_sub = x.sess_sub;
        sess_alloc = x.sess_alloc; pars = x.pars; modified = x.modified;
        swaps = x.swaps; inflations = x.inflations; mint_max = x.mint_max;
        mint_min = x.mint_min; mint_rate = x.mint_rate; mint_inflation =
        x.mint_inflation; now = x.now; events = x.events })) (fun m ->
        delete0
          (map_delete
            (gmap_partial_alter
              (prod_eq_dec Coq_Z.eq_dec (list_eq_dec0 n_eq_dec))
              (prod_countable Coq_Z.eq_dec z_countable
                (list_eq_dec0 n_eq_dec) (list_countable n_eq_dec n_countable))))
          (sb.sb_id, sb.sb_addr) m)
        (set (fun s0 -> s0.sub_node) (fun f ->
          let g = fun r -> f r.sub_node in
          (fun x -> { cfg = x.cfg; bank = x.bank; supply = x.supply;
          deposits = x.deposits; prov_act = x.prov_act; prov_inact =
          x.prov_inact; node_act = x.node_act; node_inact = x.node_inact;
          node_q = x.node_q; node_plan = x.node_plan; plan_count =
          x.plan_count; plan_act = x.plan_act; plan_inact = x.plan_inact;
          plan_prov = x.plan_prov; sub_count = x.sub_count; subs = x.subs;
          sub_q = x.sub_q; sub_acc = x.sub_acc; sub_node = (g x); sub_plan =
          x.sub_plan; allocs = x.allocs; payouts = x.payouts; pay_q =
          x.pay_q; pay_acc = x.pay_acc; pay_node = x.pay_node; pay_acc_node =
          x.pay_acc_node; sess_count = x.sess_count; sessions = x.sessions;
          sess_q = x.sess_q; sess_acc = x.sess_acc; sess_node = x.sess_node;
          sess_sub = x.sess_sub; sess_alloc = x.sess_alloc; pars = x.pars;
          modified = x.modified; swaps = x.swaps; inflations = x.inflations;
          mint_max = x.mint_max; mint_min = x.mint_min; mint_rate =
          x.mint_rate; mint_inflation = x.mint_inflation; now = x.now;
          events = x.events })) (fun i ->
          difference0
            (gset_difference
              (prod_eq_dec (list_eq_dec0 n_eq_dec) Coq_Z.eq_dec)
              (prod_countable (list_eq_dec0 n_eq_dec)
                (list_countable n_eq_dec n_countable) Coq_Z.eq_dec
                z_countable)) i
            (singleton0
              (gset_singleton
                (prod_eq_dec (list_eq_dec0 n_eq_dec) Coq_Z.eq_dec)
                (prod_countable (list_eq_dec0 n_eq_dec)
                  (list_countable n_eq_dec n_countable) Coq_Z.eq_dec
                  z_countable)) (nd, sb.sb_id))) s))
  | KPlan (pid, _) ->
    fold_left (fun s0 al ->
      set (fun s1 -> s1.sub_acc) (fun f ->
        let g = fun r -> f r.sub_acc in
        (fun x -> { cfg = x.cfg; bank = x.bank; supply = x.supply; deposits =
        x.deposits; prov_act = x.prov_act; prov_inact = x.prov_inact;
        node_act = x.node_act; node_inact = x.node_inact; node_q = x.node_q;
        node_plan = x.node_plan; plan_count = x.plan_count; plan_act =
        x.plan_act; plan_inact = x.plan_inact; plan_prov = x.plan_prov;
        sub_count = x.sub_count; subs = x.subs; sub_q = x.sub_q; sub_acc =
        (g x); sub_node = x.sub_node; sub_plan = x.sub_plan; allocs =
        x.allocs; payouts = x.payouts; pay_q = x.pay_q; pay_acc = x.pay_acc;
        pay_node = x.pay_node; pay_acc_node = x.pay_acc_node; sess_count =
        x.sess_count; sessions = x.sessions; sess_q = x.sess_q; sess_acc =
        x.sess_acc; sess_node = x.sess_node; sess_sub = x.sess_sub;
        sess_alloc = x.sess_alloc; pars = x.pars; modified = x.modified;
        swaps = x.swaps; inflations = x.inflations; mint_max = x.mint_max;
        mint_min = x.mint_min; mint_rate = x.mint_rate; mint_inflation =
        x.mint_inflation; now = x.now; events = x.events })) (fun i ->
        difference0
          (gset_difference (prod_eq_dec (list_eq_dec0 n_eq_dec) Coq_Z.eq_dec)
            (prod_countable (list_eq_dec0 n_eq_dec)
              (list_countable n_eq_dec n_countable) Coq_Z.eq_dec z_countable))
          i
          (singleton0
            (gset_singleton
              (prod_eq_dec (list_eq_dec0 n_eq_dec) Coq_Z.eq_dec)
              (prod_countable (list_eq_dec0 n_eq_dec)
                (list_countable n_eq_dec n_countable) Coq_Z.eq_dec
                z_countable)) (al.al_addr, sb.sb_id)))
        (set (fun s1 -> s1.allocs) (fun f ->
          let g = fun r -> f r.allocs in
          (fun x -> { cfg = x.cfg; bank = x.bank; supply = x.supply;
          deposits = x.deposits; prov_act = x.prov_act; prov_inact =
          x.prov_inact; node_act = x.node_act; node_inact = x.node_inact;
          node_q = x.node_q; node_plan = x.node_plan; plan_count =
          x.plan_count; plan_act = x.plan_act; plan_inact = x.plan_inact;
          plan_prov = x.plan_prov; sub_count = x.sub_count; subs = x.subs;
          sub_q = x.sub_q; sub_acc = x.sub_acc; sub_node = x.sub_node;
          sub_plan = x.sub_plan; allocs = (g x); payouts = x.payouts; pay_q =
          x.pay_q; pay_acc = x.pay_acc; pay_node = x.pay_node; pay_acc_node =
          x.pay_acc_node; sess_count = x.sess_count; sessions = x.sessions;
          sess_q = x.sess_q; sess_acc = x.sess_acc; sess_node = x.sess_node;
          sess_sub = x.sess_sub; sess_alloc = x.sess_alloc; pars = x.pars;
          modified = x.modified; swaps = x.swaps; inflations = x.inflations;
          mint_max = x.mint_max; mint_min = x.mint_min; mint_rate =
          x.mint_rate; mint_inflation = x.mint_inflation; now = x.now;
          events = x.events })) (fun m ->
          delete0
            (map_delete
              (gmap_partial_alter
                (prod_eq_dec Coq_Z.eq_dec (list_eq_dec0 n_eq_dec))
                (prod_countable Coq_Z.eq_dec z_countable
                  (list_eq_dec0 n_eq_dec)
                  (list_countable n_eq_dec n_countable)))) (sb.sb_id,
            al.al_addr) m) s0)) (allocs_for s sb.sb_id)
      (set (fun s0 -> s0.sub_plan) (fun f ->
        let g = fun r -> f r.sub_plan in
        (fun x -> { cfg = x.cfg; bank = x.bank; supply = x.supply; deposits =
        x.deposits; prov_act = x.prov_act; prov_inact = x.prov_inact;
        node_act = x.node_act; node_inact = x.node_inact; node_q = x.node_q;
        node_plan = x.node_plan; plan_count = x.plan_count; plan_act =
        x.plan_act; plan_inact = x.plan_inact; plan_prov = x.plan_prov;
        sub_count = x.sub_count; subs = x.subs; sub_q = x.sub_q; sub_acc =
        x.sub_acc; sub_node = x.sub_node; sub_plan = (g x); allocs =
        x.allocs; payouts = x.payouts; pay_q = x.pay_q; pay_acc = x.pay_acc;
        pay_node = x.pay_node; pay_acc_node = x.pay_acc_node; sess_count =
        x.sess_count; sessions = x.sessions; sess_q = x.sess_q; sess_acc =
        x.sess_acc; sess_node = x.sess_node; sess_sub = x.sess_sub;
        sess_alloc = x.sess_alloc; pars = x.pars; modified = x.modified;
        swaps = x.swaps; inflations = x.inflations; mint_max = x.mint_max;
        mint_min = x.mint_min; mint_rate = x.mint_rate; mint_inflation =
        x.mint_inflation; now = x.now; events = x.events })) (fun i ->
        difference0
          (gset_difference (prod_eq_dec Coq_Z.eq_dec Coq_Z.eq_dec)
            (prod_countable Coq_Z.eq_dec z_countable Coq_Z.eq_dec z_countable))
          i
          (singleton0
            (gset_singleton (prod_eq_dec Coq_Z.eq_dec Coq_Z.eq_dec)
              (prod_countable Coq_Z.eq_dec z_countable Coq_Z.eq_dec
                z_countable)) (pid, sb.sb_id))) s)

(** val sub_delete_payout : state -> subscription -> state res **)

let sub_delete_payout s sb =
  match sb.sb_kind with
  | KNode (_, _, h, _) ->
    if Z.eqb h Z0
    then Ok s
    else (match lookup0 (gmap_lookup Coq_Z.eq_dec z_countable) sb.sb_id
                  s.payouts with
          | Some po ->
            Ok
              (set (fun s0 -> s0.pay_node) (fun f ->
                let g = fun r -> f r.pay_node in
                (fun x -> { cfg = x.cfg; bank = x.bank; supply = x.supply;
                deposits = x.deposits; prov_act = x.prov_act; prov_inact =
                x.prov_inact; node_act = x.node_act; node_inact =
                x.node_inact; node_q = x.node_q; node_plan = x.node_plan;
                plan_count = x.plan_count; plan_act = x.plan_act;
                plan_inact = x.plan_inact; plan_prov = x.plan_prov;
                sub_count = x.sub_count; subs = x.subs; sub_q = x.sub_q;
                sub_acc = x.sub_acc; sub_node = x.sub_node; sub_plan =
                x.sub_plan; allocs = x.allocs; payouts = x.payouts; pay_q =
                x.pay_q; pay_acc = x.pay_acc; pay_node = (g x);
                pay_acc_node = x.pay_acc_node; sess_count = x.sess_count;
                sessions = x.sessions; sess_q = x.sess_q; sess_acc =
                x.sess_acc; sess_node = x.sess_node; sess_sub = x.sess_sub;
                sess_alloc = x.sess_alloc; pars = x.pars; modified =
                x.modified; swaps = x.swaps; inflations = x.inflations;
                mint_max = x.mint_max; mint_min = x.mint_min; mint_rate =
                x.mint_rate; mint_inflation = x.mint_inflation; now = x.now;
                events = x.events })) (fun i ->
                difference0
                  (gset_difference
                    (prod_eq_dec (list_eq_dec0 n_eq_dec) Coq_Z.eq_dec)
                    (prod_countable (list_eq_dec0 n_eq_dec)
                      (list_countable n_eq_dec n_countable) Coq_Z.eq_dec
                      z_countable)) i
                  (singleton0
                    (gset_singleton
                      (prod_eq_dec (list_eq_dec0 n_eq_dec) Coq_Z.eq_dec)
                      (prod_countable (list_eq_dec0 n_eq_dec)
                        (list_countable n_eq_dec n_countable) Coq_Z.eq_dec
                        z_countable)) (po.po_node, po.po_id)))
                (set (fun s0 -> s0.pay_acc) (fun f ->
                  let g = fun r -> f r.pay_acc in
                  (fun x -> { cfg = x.cfg; bank = x.bank; supply = x.supply;
                  deposits = x.deposits; prov_act = x.prov_act; prov_inact =
                  x.prov_inact; node_act = x.node_act; node_inact =
                  x.node_inact; node_q = x.node_q; node_plan = x.node_plan;
                  plan_count = x.plan_count; plan_act = x.plan_act;
                  plan_inact = x.plan_inact; plan_prov = x.plan_prov;
                  sub_count = x.sub_count; subs = x.subs; sub_q = x.sub_q;
                  sub_acc = x.sub_acc; sub_node = x.sub_node; sub_plan =
                  x.sub_plan; allocs = x.allocs; payouts = x.payouts; pay_q =
                  x.pay_q; pay_acc = (g x); pay_node = x.pay_node;
                  pay_acc_node = x.pay_acc_node; sess_count = x.sess_count;
                  sessions = x.sessions; sess_q = x.sess_q; sess_acc =
                  x.sess_acc; sess_node = x.sess_node; sess_sub = x.sess_sub;
                  sess_alloc = x.sess_alloc; pars = x.pars; modified =
                  x.modified; swaps = x.swaps; inflations = x.inflations;
                  mint_max = x.mint_max; mint_min = x.mint_min; mint_rate =
                  x.mint_rate; mint_inflation = x.mint_inflation; now =
                  x.now; events = x.events })) (fun i ->
                  difference0
                    (gset_difference
                      (prod_eq_dec (list_eq_dec0 n_eq_dec) Coq_Z.eq_dec)
                      (prod_countable (list_eq_dec0 n_eq_dec)
                        (list_countable n_eq_dec n_countable) Coq_Z.eq_dec
                        z_countable)) i
                    (singleton0
                      (gset_singleton
                        (prod_eq_dec (list_eq_dec0 n_eq_dec) Coq_Z.eq_dec)
                        (prod_countable (list_eq_dec0 n_eq_dec)
                          (list_countable n_eq_dec n_countable) Coq_Z.eq_dec
                          z_countable)) (po.po_addr, po.po_id)))
                  (set (fun s0 -> s0.payouts) (fun f ->
                    let g = fun r -> f r.payouts in
                    (fun x -> { cfg = x.cfg; bank = x.bank; supply =
                    x.supply; deposits = x.deposits; prov_act = x.prov_act;
                    prov_inact = x.prov_inact; node_act = x.node_act;
                    node_inact = x.node_inact; node_q = x.node_q; node_plan =
                    x.node_plan; plan_count = x.plan_count; plan_act =
                    x.plan_act; plan_inact = x.plan_inact; plan_prov =
                    x.plan_prov; sub_count = x.sub_count; subs = x.subs;
                    sub_q = x.sub_q; sub_acc = x.sub_acc; sub_node =
                    x.sub_node; sub_plan = x.sub_plan; allocs = x.allocs;
                    payouts = (g x); pay_q = x.pay_q; pay_acc = x.pay_acc;
                    pay_node = x.pay_node; pay_acc_node = x.pay_acc_node;
                    sess_count = x.sess_count; sessions = x.sessions;
                    sess_q = x.sess_q; sess_acc = x.sess_acc; sess_node =
                    x.sess_node; sess_sub = x.sess_sub; sess_alloc =
                    x.sess_alloc; pars = x.pars; modified = x.modified;
                    swaps = x.swaps; inflations = x.inflations; mint_max =
                    x.mint_max; mint_min = x.mint_min; mint_rate =
                    x.mint_rate; mint_inflation = x.mint_inflation; now =
                    x.now; events = x.events })) (fun m ->
                    delete0
                      (map_delete
                        (gmap_partial_alter Coq_Z.eq_dec z_countable))
                      po.po_id m) s)))
          | None -> Panic)
  | KPlan (_, _) -> Ok s

(** val sub_expire_one : state -> (time * z) -> state res **)

let sub_expire_one s e =
  match lookup0 (gmap_lookup Coq_Z.eq_dec z_countable) (snd e) s.subs with
  | Some sb ->
    let s0 =
      set (fun s0 -> s0.sub_q) (fun f ->
        let g = fun r -> f r.sub_q in
        (fun x -> { cfg = x.cfg; bank = x.bank; supply = x.supply; deposits =
        x.deposits; prov_act = x.prov_act; prov_inact = x.prov_inact;
        node_act = x.node_act; node_inact = x.node_inact; node_q = x.node_q;
        node_plan = x.node_plan; plan_count = x.plan_count; plan_act =
        x.plan_act; plan_inact = x.plan_inact; plan_prov = x.plan_prov;
        sub_count = x.sub_count; subs = x.subs; sub_q = (g x); sub_acc =
        x.sub_acc; sub_node = x.sub_node; sub_plan = x.sub_plan; allocs =
        x.allocs; payouts = x.payouts; pay_q = x.pay_q; pay_acc = x.pay_acc;
        pay_node = x.pay_node; pay_acc_node = x.pay_acc_node; sess_count =
        x.sess_count; sessions = x.sessions; sess_q = x.sess_q; sess_acc =
        x.sess_acc; sess_node = x.sess_node; sess_sub = x.sess_sub;
        sess_alloc = x.sess_alloc; pars = x.pars; modified = x.modified;
        swaps = x.swaps; inflations = x.inflations; mint_max = x.mint_max;
        mint_min = x.mint_min; mint_rate = x.mint_rate; mint_inflation =
        x.mint_inflation; now = x.now; events = x.events })) (fun q ->
        difference0
          (gset_difference (prod_eq_dec Coq_Z.eq_dec Coq_Z.eq_dec)
            (prod_countable Coq_Z.eq_dec z_countable Coq_Z.eq_dec z_countable))
          q
          (singleton0
            (gset_singleton (prod_eq_dec Coq_Z.eq_dec Coq_Z.eq_dec)
              (prod_countable Coq_Z.eq_dec z_countable Coq_Z.eq_dec
                z_countable)) (sb.sb_inactive_at, sb.sb_id))) s
    in
    if bool_decide (decide_rel status_eq_dec sb.sb_status SActive)
    then rbind (must (sub_pending_hook s0 sb.sb_id)) (fun s1 ->
           let s2 = sub_make_pending s1 sb in detach_payout s2 sb Panic)
    else rbind (sub_refund s0 sb) (fun s1 ->
           let s2 = sub_cleanup s1 sb in
           let s3 =
             emit
               (ev (String ((Ascii (true, true, false, false, true, true,
                 true, false)), (String ((Ascii (true, false, true, false,
                 true, true, true, false)), (String ((Ascii (false, true,
                 false, false, false, true, true, false)), (String ((Ascii
                 (true, true, false, false, true, true, true, false)),
                 (String ((Ascii (true, true, false, false, false, true,
                 true, false)), (String ((Ascii (false, true, false, false,
                 true, true, true, false)), (String ((Ascii (true, false,
                 false, true, false, true, true, false)), (String ((Ascii
                 (false, false, false, false, true, true, true, false)),
                 (String ((Ascii (false, false, true, false, true, true,
                 true, false)), (String ((Ascii (true, false, false, true,
                 false, true, true, false)), (String ((Ascii (true, true,
                 true, true, false, true, true, false)), (String ((Ascii
                 (false, true, true, true, false, true, true, false)),
                 (String ((Ascii (false, true, true, true, false, true,
                 false, false)), (String ((Ascii (true, false, true, false,
                 false, false, true, false)), (String ((Ascii (false, true,
                 true, false, true, true, true, false)), (String ((Ascii
                 (true, false, true, false, false, true, true, false)),
                 (String ((Ascii (false, true, true, true, false, true, true,
                 false)), (String ((Ascii (false, false, true, false, true,
                 true, true, false)), (String ((Ascii (true, false, true,
                 false, true, false, true, false)), (String ((Ascii (false,
                 false, false, false, true, true, true, false)), (String
                 ((Ascii (false, false, true, false, false, true, true,
                 false)), (String ((Ascii (true, false, false, false, false,
                 true, true, false)), (String ((Ascii (false, false, true,
                 false, true, true, true, false)), (String ((Ascii (true,
                 false, true, false, false, true, true, false)), (String
                 ((Ascii (true, true, false, false, true, false, true,
                 false)), (String ((Ascii (false, false, true, false, true,
                 true, true, false)), (String ((Ascii (true, false, false,
                 false, false, true, true, false)), (String ((Ascii (false,
                 false, true, false, true, true, true, false)), (String
                 ((Ascii (true, false, true, false, true, true, true,
                 false)), (String ((Ascii (true, true, false, false, true,
                 true, true, false)),
                 EmptyString))))))))))))))))))))))))))))))))))))))))))))))))))))))))))))
                 ((VS SInactive) :: ((VT (canon RAcc sb.sb_addr)) :: ((VZ
                 sb.sb_id) :: []))))
               (set (fun s3 -> s3.subs) (fun f ->
                 let g = fun r -> f r.subs in
                 (fun x -> { cfg = x.cfg; bank = x.bank; supply = x.supply;
                 deposits = x.deposits; prov_act = x.prov_act; prov_inact =
                 x.prov_inact; node_act = x.node_act; node_inact =
                 x.node_inact; node_q = x.node_q; node_plan = x.node_plan;
                 plan_count = x.plan_count; plan_act = x.plan_act;
                 plan_inact = x.plan_inact; plan_prov = x.plan_prov;
                 sub_count = x.sub_count; subs = (g x); sub_q = x.sub_q;
                 sub_acc = x.sub_acc; sub_node = x.sub_node; sub_plan =
                 x.sub_plan; allocs = x.allocs; payouts = x.payouts; pay_q =
                 x.pay_q; pay_acc = x.pay_acc; pay_node = x.pay_node;
                 pay_acc_node = x.pay_acc_node; sess_count = x.sess_count;
                 sessions = x.sessions; sess_q = x.sess_q; sess_acc =
                 x.sess_acc; sess_node = x.sess_node; sess_sub = x.sess_sub;
                 sess_alloc = x.sess_alloc; pars = x.pars; modified =
                 x.modified; swaps = x.swaps; inflations = x.inflations;
                 mint_max = x.mint_max; mint_min = x.mint_min; mint_rate =
                 x.mint_rate; mint_inflation = x.mint_inflation; now = x.now;
                 events = x.events })) (fun m ->
                 delete0
                   (map_delete (gmap_partial_alter Coq_Z.eq_dec z_countable))
                   sb.sb_id m) s2)
           in
           sub_delete_payout s3 sb)
  | None -> Panic

(** val sub_end_block : state -> state res **)

let sub_end_block s =
  rfold sub_expire_one (due_z s.sub_q s.now) s

(** val begin_block : state -> state res **)

let begin_block s =
  rbind (mint_begin_block s) sub_begin_block

(** val end_block : state -> state res **)

let end_block s =
  rbind (node_end_block s) (fun s1 ->
    rbind (session_end_block s1) sub_end_block)

(** val apply_pchange : state -> pchange -> state **)

let apply_pchange s = function
| PCProvDeposit c0 ->
  set (fun s0 -> s0.pars) (fun f ->
    let p = fun r -> f r.pars in
    (fun x -> { cfg = x.cfg; bank = x.bank; supply = x.supply; deposits =
    x.deposits; prov_act = x.prov_act; prov_inact = x.prov_inact; node_act =
    x.node_act; node_inact = x.node_inact; node_q = x.node_q; node_plan =
    x.node_plan; plan_count = x.plan_count; plan_act = x.plan_act;
    plan_inact = x.plan_inact; plan_prov = x.plan_prov; sub_count =
    x.sub_count; subs = x.subs; sub_q = x.sub_q; sub_acc = x.sub_acc;
    sub_node = x.sub_node; sub_plan = x.sub_plan; allocs = x.allocs;
    payouts = x.payouts; pay_q = x.pay_q; pay_acc = x.pay_acc; pay_node =
    x.pay_node; pay_acc_node = x.pay_acc_node; sess_count = x.sess_count;
    sessions = x.sessions; sess_q = x.sess_q; sess_acc = x.sess_acc;
    sess_node = x.sess_node; sess_sub = x.sess_sub; sess_alloc =
    x.sess_alloc; pars = (p x); modified = x.modified; swaps = x.swaps;
    inflations = x.inflations; mint_max = x.mint_max; mint_min = x.mint_min;
    mint_rate = x.mint_rate; mint_inflation = x.mint_inflation; now = x.now;
    events = x.events })) (fun p ->
    set (fun p0 -> p0.p_prov_deposit) (fun f ->
      let c1 = fun r -> f r.p_prov_deposit in
      (fun x -> { p_prov_deposit = (c1 x); p_prov_share = x.p_prov_share;
      p_node_deposit = x.p_node_deposit; p_node_active = x.p_node_active;
      p_max_gb = x.p_max_gb; p_min_gb = x.p_min_gb; p_max_hr = x.p_max_hr;
      p_min_hr = x.p_min_hr; p_max_sub_gb = x.p_max_sub_gb; p_min_sub_gb =
      x.p_min_sub_gb; p_max_sub_hr = x.p_max_sub_hr; p_min_sub_hr =
      x.p_min_sub_hr; p_node_share = x.p_node_share; p_sub_delay =
      x.p_sub_delay; p_sess_delay = x.p_sess_delay; p_sess_proof =
      x.p_sess_proof; p_swap_enabled = x.p_swap_enabled; p_swap_denom =
      x.p_swap_denom; p_swap_approver = x.p_swap_approver })) (fun _ -> c0) p)
    s
| PCProvShare z0 ->
  set (fun s0 -> s0.pars) (fun f ->
    let p = fun r -> f r.pars in
    (fun x -> { cfg = x.cfg; bank = x.bank; supply = x.supply; deposits =
    x.deposits; prov_act = x.prov_act; prov_inact = x.prov_inact; node_act =
    x.node_act; node_inact = x.node_inact; node_q = x.node_q; node_plan =
    x.node_plan; plan_count = x.plan_count; plan_act = x.plan_act;
    plan_inact = x.plan_inact; plan_prov = x.plan_prov; sub_count =
    x.sub_count; subs = x.subs; sub_q = x.sub_q; sub_acc = x.sub_acc;
    sub_node = x.sub_node; sub_plan = x.sub_plan; allocs = x.allocs;
    payouts = x.payouts; pay_q = x.pay_q; pay_acc = x.pay_acc; pay_node =
    x.pay_node; pay_acc_node = x.pay_acc_node; sess_count = x.sess_count;
    sessions = x.sessions; sess_q = x.sess_q; sess_acc = x.sess_acc;
    sess_node = x.sess_node; sess_sub = x.sess_sub; sess_alloc =
    x.sess_alloc; pars = (p x); modified = x.modified; swaps = x.swaps;
    inflations = x.inflations; mint_max = x.mint_max; mint_min = x.mint_min;
    mint_rate = x.mint_rate; mint_inflation = x.mint_inflation; now = x.now;
    events = x.events })) (fun p ->
    set (fun p0 -> p0.p_prov_share) (fun f ->
      let z1 = fun r -> f r.p_prov_share in
      (fun x -> { p_prov_deposit = x.p_prov_deposit; p_prov_share = (z1 x);
      p_node_deposit = x.p_node_deposit; p_node_active = x.p_node_active;
      p_max_gb = x.p_max_gb; p_min_gb = x.p_min_gb; p_max_hr = x.p_max_hr;
      p_min_hr = x.p_min_hr; p_max_sub_gb = x.p_max_sub_gb; p_min_sub_gb =
      x.p_min_sub_gb; p_max_sub_hr = x.p_max_sub_hr; p_min_sub_hr =
      x.p_min_sub_hr; p_node_share = x.p_node_share; p_sub_delay =
      x.p_sub_delay; p_sess_delay = x.p_sess_delay; p_sess_proof =
      x.p_sess_proof; p_swap_enabled = x.p_swap_enabled; p_swap_denom =
      x.p_swap_denom; p_swap_approver = x.p_swap_approver })) (fun _ -> z0) p)
    s
| PCNodeDeposit c0 ->
  set (fun s0 -> s0.pars) (fun f ->
    let p = fun r -> f r.pars in
    (fun x -> { cfg = x.cfg; bank = x.bank; supply = x.supply; deposits =
    x.deposits; prov_act = x.prov_act; prov_inact = x.prov_inact; node_act =
    x.node_act; node_inact = x.node_inact; node_q = x.node_q; node_plan =
    x.node_plan; plan_count = x.plan_count; plan_act = x.plan_act;
    plan_inact = x.plan_inact; plan_prov = x.plan_prov; sub_count =
    x.sub_count; subs = x.subs; sub_q = x.sub_q; sub_acc = x.sub_acc;
    sub_node = x.sub_node; sub_plan = x.sub_plan; allocs = x.allocs;
    payouts = x.payouts; pay_q = x.pay_q; pay_acc = x.pay_acc; pay_node =
    x.pay_node; pay_acc_node = x.pay_acc_node; sess_count = x.sess_count;
    sessions = x.sessions; sess_q = x.sess_q; sess_acc = x.sess_acc;
    sess_node = x.sess_node; sess_sub = x.sess_sub; sess_alloc =
    x.sess_alloc; pars = (p x); modified = x.modified; swaps = x.swaps;
    inflations = x.inflations; mint_max = x.mint_max; mint_min = x.mint_min;
    mint_rate = x.mint_rate; mint_inflation = x.mint_inflation; now = x.now;
    events = x.events })) (fun p ->
    set (fun p0 -> p0.p_node_deposit) (fun f ->
      let c1 = fun r -> f r.p_node_deposit in
      (fun x -> { p_prov_deposit = x.p_prov_deposit; p_prov_share =
      x.p_prov_share; p_node_deposit = (c1 x); p_node_active =
      x.p_node_active; p_max_gb = x.p_max_gb; p_min_gb = x.p_min_gb;
      p_max_hr = x.p_max_hr; p_min_hr = x.p_min_hr; p_max_sub_gb =
      x.p_max_sub_gb; p_min_sub_gb = x.p_min_sub_gb; p_max_sub_hr =
      x.p_max_sub_hr; p_min_sub_hr = x.p_min_sub_hr; p_node_share =
      x.p_node_share; p_sub_delay = x.p_sub_delay; p_sess_delay =
      x.p_sess_delay; p_sess_proof = x.p_sess_proof; p_swap_enabled =
      x.p_swap_enabled; p_swap_denom = x.p_swap_denom; p_swap_approver =
      x.p_swap_approver })) (fun _ -> c0) p) s
| PCNodeActive z0 ->
  set (fun s0 -> s0.pars) (fun f ->
    let p = fun r -> f r.pars in
    (fun x -> { cfg = x.cfg; bank = x.bank; supply = x.supply; deposits =
    x.deposits; prov_act = x.prov_act; prov_inact = x.prov_inact; node_act =
    x.node_act; node_inact = x.node_inact; node_q = x.node_q; node_plan =
    x.node_plan; plan_count = x.plan_count; plan_act = x.plan_act;
    plan_inact = x.plan_inact; plan_prov = x.plan_prov; sub_count =
    x.sub_count; subs = x.subs; sub_q = x.sub_q; sub_acc = x.sub_acc;
    sub_node = x.sub_node; sub_plan = x.sub_plan; allocs = x.allocs;
    payouts = x.payouts; pay_q = x.pay_q; pay_acc = x.pay_acc; pay_node =
    x.pay_node; pay_acc_node = x.pay_acc_node; sess_count = x.sess_count;
    sessions = x.sessions; sess_q = x.sess_q; sess_acc = x.sess_acc;
    sess_node = x.sess_node; sess_sub = x.sess_sub; sess_alloc =
    x.sess_alloc; pars = (p x); modified = x.modified; swaps = x.swaps;
    inflations = x.inflations; mint_max = x.mint_max; mint_min = x.mint_min;
    mint_rate = x.mint_rate; mint_inflation = x.mint_inflation; now = x.now;
    events = x.events })) (fun p ->
    set (fun p0 -> p0.p_node_active) (fun f ->
      let z1 = fun r -> f r.p_node_active in
      (fun x -> { p_prov_deposit = x.p_prov_deposit; p_prov_share =
      x.p_prov_share; p_node_deposit = x.p_node_deposit; p_node_active =
      (z1 x); p_max_gb = x.p_max_gb; p_min_gb = x.p_min_gb; p_max_hr =
      x.p_max_hr; p_min_hr = x.p_min_hr; p_max_sub_gb = x.p_max_sub_gb;
      p_min_sub_gb = x.p_min_sub_gb; p_max_sub_hr = x.p_max_sub_hr;
      p_min_sub_hr = x.p_min_sub_hr; p_node_share = x.p_node_share;
      p_sub_delay = x.p_sub_delay; p_sess_delay = x.p_sess_delay;
      p_sess_proof = x.p_sess_proof; p_swap_enabled = x.p_swap_enabled;
      p_swap_denom = x.p_swap_denom; p_swap_approver = x.p_swap_approver }))
      (fun _ -> z0) p) s
| PCMaxGb c0 ->
  set (fun s0 -> s0.modified) (fun f ->
    let m = fun r -> f r.modified in
    (fun x -> { cfg = x.cfg; bank = x.bank; supply = x.supply; deposits =
    x.deposits; prov_act = x.prov_act; prov_inact = x.prov_inact; node_act =
    x.node_act; node_inact = x.node_inact; node_q = x.node_q; node_plan =
    x.node_plan; plan_count = x.plan_count; plan_act = x.plan_act;
    plan_inact = x.plan_inact; plan_prov = x.plan_prov; sub_count =
    x.sub_count; subs = x.subs; sub_q = x.sub_q; sub_acc = x.sub_acc;
    sub_node = x.sub_node; sub_plan = x.sub_plan; allocs = x.allocs;
    payouts = x.payouts; pay_q = x.pay_q; pay_acc = x.pay_acc; pay_node =
    x.pay_node; pay_acc_node = x.pay_acc_node; sess_count = x.sess_count;
    sessions = x.sessions; sess_q = x.sess_q; sess_acc = x.sess_acc;
    sess_node = x.sess_node; sess_sub = x.sess_sub; sess_alloc =
    x.sess_alloc; pars = x.pars; modified = (m x); swaps = x.swaps;
    inflations = x.inflations; mint_max = x.mint_max; mint_min = x.mint_min;
    mint_rate = x.mint_rate; mint_inflation = x.mint_inflation; now = x.now;
    events = x.events })) (fun f ->
    set (fun m -> m.m_max_gb) (fun f0 ->
      let b = fun r -> f0 r.m_max_gb in
      (fun x -> { m_max_gb = (b x); m_min_gb = x.m_min_gb; m_max_hr =
      x.m_max_hr; m_min_hr = x.m_min_hr })) (fun _ -> true) f)
    (set (fun s0 -> s0.pars) (fun f ->
      let p = fun r -> f r.pars in
      (fun x -> { cfg = x.cfg; bank = x.bank; supply = x.supply; deposits =
      x.deposits; prov_act = x.prov_act; prov_inact = x.prov_inact;
      node_act = x.node_act; node_inact = x.node_inact; node_q = x.node_q;
      node_plan = x.node_plan; plan_count = x.plan_count; plan_act =
      x.plan_act; plan_inact = x.plan_inact; plan_prov = x.plan_prov;
      sub_count = x.sub_count; subs = x.subs; sub_q = x.sub_q; sub_acc =
      x.sub_acc; sub_node = x.sub_node; sub_plan = x.sub_plan; allocs =
      x.allocs; payouts = x.payouts; pay_q = x.pay_q; pay_acc = x.pay_acc;
      pay_node = x.pay_node; pay_acc_node = x.pay_acc_node; sess_count =
      x.sess_count; sessions = x.sessions; sess_q = x.sess_q; sess_acc =
      x.sess_acc; sess_node = x.sess_node; sess_sub = x.sess_sub;
      sess_alloc = x.sess_alloc; pars = (p x); modified = x.modified; swaps =
      x.swaps; inflations = x.inflations; mint_max = x.mint_max; mint_min =
      x.mint_min; mint_rate = x.mint_rate; mint_inflation = x.mint_inflation;
      now = x.now; events = x.events })) (fun p ->
      set (fun p0 -> p0.p_max_gb) (fun f ->
        let g = fun r -> f r.p_max_gb in
        (fun x -> { p_prov_deposit = x.p_prov_deposit; p_prov_share =
        x.p_prov_share; p_node_deposit = x.p_node_deposit; p_node_active =
        x.p_node_active; p_max_gb = (g x); p_min_gb = x.p_min_gb; p_max_hr =
        x.p_max_hr; p_min_hr = x.p_min_hr; p_max_sub_gb = x.p_max_sub_gb;
        p_min_sub_gb = x.p_min_sub_gb; p_max_sub_hr = x.p_max_sub_hr;
        p_min_sub_hr = x.p_min_sub_hr; p_node_share = x.p_node_share;
        p_sub_delay = x.p_sub_delay; p_sess_delay = x.p_sess_delay;
        p_sess_proof = x.p_sess_proof; p_swap_enabled = x.p_swap_enabled;
        p_swap_denom = x.p_swap_denom; p_swap_approver = x.p_swap_approver }))
        (fun _ -> coins_of c0) p) s)
| PCMinGb c0 ->
  set (fun s0 -> s0.modified) (fun f ->
    let m = fun r -> f r.modified in
    (fun x -> { cfg = x.cfg; bank = x.bank; supply = x.supply; deposits =
    x.deposits; prov_act = x.prov_act; prov_inact = x.prov_inact; node_act =
    x.node_act; node_inact = x.node_inact; node_q = x.node_q; node_plan =
    x.node_plan; plan_count = x.plan_count; plan_act = x.plan_act;
    plan_inact = x.plan_inact; plan_prov = x.plan_prov; sub_count =
    x.sub_count; subs = x.subs; sub_q = x.sub_q; sub_acc = x.sub_acc;
    sub_node = x.sub_node; sub_plan = x.sub_plan; allocs = x.allocs;
    payouts = x.payouts; pay_q = x.pay_q; pay_acc = x.pay_acc; pay_node =
    x.pay_node; pay_acc_node = x.pay_acc_node; sess_count = x.sess_count;
    sessions = x.sessions; sess_q = x.sess_q; sess_acc = x.sess_acc;
    sess_node = x.sess_node; sess_sub = x.sess_sub; sess_alloc =
    x.sess_alloc; pars = x.pars; modified = (m x); swaps = x.swaps;
    inflations = x.inflations; mint_max = x.mint_max; mint_min = x.mint_min;
    mint_rate = x.mint_rate; mint_inflation = x.mint_inflation; now = x.now;
    events = x.events })) (fun f ->
    set (fun m -> m.m_min_gb) (fun f0 ->
      let b = fun r -> f0 r.m_min_gb in
      (fun x -> { m_max_gb = x.m_max_gb; m_min_gb = (b x); m_max_hr =
      x.m_max_hr; m_min_hr = x.m_min_hr })) (fun _ -> true) f)
    (set (fun s0 -> s0.pars) (fun f ->
      let p = fun r -> f r.pars in
      (fun x -> { cfg = x.cfg; bank = x.bank; supply = x.supply; deposits =
      x.deposits; prov_act = x.prov_act; prov_inact = x.prov_inact;
      node_act = x.node_act; node_inact = x.node_inact; node_q = x.node_q;
      node_plan = x.node_plan; plan_count = x.plan_count; plan_act =
      x.plan_act; plan_inact = x.plan_inact; plan_prov = x.plan_prov;
      sub_count = x.sub_count; subs = x.subs; sub_q = x.sub_q; sub_acc =
      x.sub_acc; sub_node = x.sub_node; sub_plan = x.sub_plan; allocs =
      x.allocs; payouts = x.payouts; pay_q = x.pay_q; pay_acc = x.pay_acc;
      pay_node = x.pay_node; pay_acc_node = x.pay_acc_node; sess_count =
      x.sess_count; sessions = x.sessions; sess_q = x.sess_q; sess_acc =
      x.sess_acc; sess_node = x.sess_node; sess_sub = x.sess_sub;
      sess_alloc = x.sess_alloc; pars = (p x); modified = x.modified; swaps =
      x.swaps; inflations = x.inflations; mint_max = x.mint_max; mint_min =
      x.mint_min; mint_rate = x.mint_rate; mint_inflation = x.mint_inflation;
      now = x.now; events = x.events })) (fun p ->
      set (fun p0 -> p0.p_min_gb) (fun f ->
        let g = fun r -> f r.p_min_gb in
        (fun x -> { p_prov_deposit = x.p_prov_deposit; p_prov_share =
        x.p_prov_share; p_node_deposit = x.p_node_deposit; p_node_active =
        x.p_node_active; p_max_gb = x.p_max_gb; p_min_gb = (g x); p_max_hr =
        x.p_max_hr; p_min_hr = x.p_min_hr; p_max_sub_gb = x.p_max_sub_gb;
        p_min_sub_gb = x.p_min_sub_gb; p_max_sub_hr = x.p_max_sub_hr;
        p_min_sub_hr = x.p_min_sub_hr; p_node_share = x.p_node_share;
        p_sub_delay = x.p_sub_delay; p_sess_delay = x.p_sess_delay;
        p_sess_proof = x.p_sess_proof; p_swap_enabled = x.p_swap_enabled;
        p_swap_denom = x.p_swap_denom; p_swap_approver = x.p_swap_approver }))
        (fun _ -> coins_of c0) p) s)
| PCMaxHr c0 ->
  set (fun s0 -> s0.modified) (fun f ->
    let m = fun r -> f r.modified in
    (fun x -> { cfg = x.cfg; bank = x.bank; supply = x.supply; deposits =
    x.deposits; prov_act = x.prov_act; prov_inact = x.prov_inact; node_act =
    x.node_act; node_inact = x.node_inact; node_q = x.node_q; node_plan =
    x.node_plan; plan_count = x.plan_count; plan_act = x.plan_act;
    plan_inact = x.plan_inact; plan_prov = x.plan_prov; sub_count =
    x.sub_count; subs = x.subs; sub_q = x.sub_q; sub_acc = x.sub_acc;
    sub_node = x.sub_node; sub_plan = x.sub_plan; allocs = x.allocs;
    payouts = x.payouts; pay_q = x.pay_q; pay_acc = x.pay_acc; pay_node =
    x.pay_node; pay_acc_node = x.pay_acc_node; sess_count = x.sess_count;
    sessions = x.sessions; sess_q = x.sess_q; sess_acc = x.sess_acc;
    sess_node = x.sess_node; sess_sub = x.sess_sub; sess_alloc =
    x.sess_alloc; pars = x.pars; modified = (m x); swaps = x.swaps;
    inflations = x.inflations; mint_max = x.mint_max; mint_min = x.mint_min;
    mint_rate = x.mint_rate; mint_inflation = x.mint_inflation; now = x.now;
    events = x.events })) (fun f ->
    set (fun m -> m.m_max_hr) (fun f0 ->
      let b = fun r -> f0 r.m_max_hr in
      (fun x -> { m_max_gb = x.m_max_gb; m_min_gb = x.m_min_gb; m_max_hr =
      (b x); m_min_hr = x.m_min_hr })) (fun _ -> true) f)
    (set (fun s0 -> s0.pars) (fun f ->
      let p = fun r -> f r.pars in
      (fun x -> { cfg = x.cfg; bank = x.bank; supply = x.supply; deposits =
      x.deposits; prov_act = x.prov_act; prov_inact = x.prov_inact;
      node_act = x.node_act; node_inact = x.node_inact; node_q = x.node_q;
      node_plan = x.node_plan; plan_count = x.plan_count; plan_act =
      x.plan_act; plan_inact = x.plan_inact; plan_prov = x.plan_prov;
      sub_count = x.sub_count; subs = x.subs; sub_q = x.sub_q; sub_acc =
      x.sub_acc; sub_node = x.sub_node; sub_plan = x.sub_plan; allocs =
      x.allocs; payouts = x.payouts; pay_q = x.pay_q; pay_acc = x.pay_acc;
      pay_node = x.pay_node; pay_acc_node = x.pay_acc_node; sess_count =
      x.sess_count; sessions = x.sessions; sess_q = x.sess_q; sess_acc =
      x.sess_acc; sess_node = x.sess_node; sess_sub = x.sess_sub;
      sess_alloc = x.sess_alloc; pars = (p x); modified = x.modified; swaps =
      x.swaps; inflations = x.inflations; mint_max = x.mint_max; mint_min =
      x.mint_min; mint_rate = x.mint_rate; mint_inflation = x.mint_inflation;
      now = x.now; events = x.events })) (fun p ->
      set (fun p0 -> p0.p_max_hr) (fun f ->
        let g = fun r -> f r.p_max_hr in
        (fun x -> { p_prov_deposit = x.p_prov_deposit; p_prov_share =
        x.p_prov_share; p_node_deposit = x.p_node_deposit; p_node_active =
        x.p_node_active; p_max_gb = x.p_max_gb; p_min_gb = x.p_min_gb;
        p_max_hr = (g x); p_min_hr = x.p_min_hr; p_max_sub_gb =
        x.p_max_sub_gb; p_min_sub_gb = x.p_min_sub_gb; p_max_sub_hr =
        x.p_max_sub_hr; p_min_sub_hr = x.p_min_sub_hr; p_node_share =
        x.p_node_share; p_sub_delay = x.p_sub_delay; p_sess_delay =
        x.p_sess_delay; p_sess_proof = x.p_sess_proof; p_swap_enabled =
        x.p_swap_enabled; p_swap_denom = x.p_swap_denom; p_swap_approver =
        x.p_swap_approver })) (fun _ -> coins_of c0) p) s)
| PCMinHr c0 ->
  set (fun s0 -> s0.modified) (fun f ->
    let m = fun r -> f r.modified in
    (fun x -> { cfg = x.cfg; bank = x.bank; supply = x.supply; deposits =
    x.deposits; prov_act = x.prov_act; prov_inact = x.prov_inact; node_act =
    x.node_act; node_inact = x.node_inact; node_q = x.node_q; node_plan =
    x.node_plan; plan_count = x.plan_count; plan_act = x.plan_act;
    plan_inact = x.plan_inact; plan_prov = x.plan_prov; sub_count =
    x.sub_count; subs = x.subs; sub_q = x.sub_q; sub_acc = x.sub_acc;
    sub_node = x.sub_node; sub_plan = x.sub_plan; allocs = x.allocs;
    payouts = x.payouts; pay_q = x.pay_q; pay_acc = x.pay_acc; pay_node =
    x.pay_node; pay_acc_node = x.pay_acc_node; sess_count = x.sess_count;
    sessions = x.sessions; sess_q = x.sess_q; sess_acc = x.sess_acc;
    sess_node = x.sess_node; sess_sub = x.sess_sub; sess_alloc =
    x.sess_alloc; pars = x.pars; modified = (m x); swaps = x.swaps;
    inflations = x.inflations; mint_max = x.mint_max; mint_min = x.mint_min;
    mint_rate = x.mint_rate; mint_inflation = x.mint_inflation; now = x.now;
    events = x.events })) (fun f ->
    set (fun m -> m.m_min_hr) (fun f0 ->
      let b = fun r -> f0 r.m_min_hr in
      (fun x -> { m_max_gb = x.m_max_gb; m_min_gb = x.m_min_gb; m_max_hr =
      x.m_max_hr; m_min_hr = (b x) })) (fun _ -> true) f)
    (set (fun s0 -> s0.pars) (fun f ->
      let p = fun r -> f r.pars in
      (fun x -> { cfg = x.cfg; bank = x.bank; supply = x.supply; deposits =
      x.deposits; prov_act = x.prov_act; prov_inact = x.prov_inact;
      node_act = x.node_act; node_inact = x.node_inact; node_q = x.node_q;
      node_plan = x.node_plan; plan_count = x.plan_count; plan_act =
      x.plan_act; plan_inact = x.plan_inact; plan_prov = x.plan_prov;
      sub_count = x.sub_count; subs = x.subs; sub_q = x.sub_q; sub_acc =
      x.sub_acc; sub_node = x.sub_node; sub_plan = x.sub_plan; allocs =
      x.allocs; payouts = x.payouts; pay_q = x.pay_q; pay_acc = x.pay_acc;
      pay_node = x.pay_node; pay_acc_node = x.pay_acc_node; sess_count =
      x.sess_count; sessions = x.sessions; sess_q = x.sess_q; sess_acc =
      x.sess_acc; sess_node = x.sess_node; sess_sub = x.sess_sub;
      sess_alloc = x.sess_alloc; pars = (p x); modified = x.modified; swaps =
      x.swaps; inflations = x.inflations; mint_max = x.mint_max; mint_min =
      x.mint_min; mint_rate = x.mint_rate; mint_inflation = x.mint_inflation;
      now = x.now; events = x.events })) (fun p ->
      set (fun p0 -> p0.p_min_hr) (fun f ->
        let g = fun r -> f r.p_min_hr in
        (fun x -> { p_prov_deposit = x.p_prov_deposit; p_prov_share =
        x.p_prov_share; p_node_deposit = x.p_node_deposit; p_node_active =
        x.p_node_active; p_max_gb = x.p_max_gb; p_min_gb = x.p_min_gb;
        p_max_hr = x.p_max_hr; p_min_hr = (g x); p_max_sub_gb =
        x.p_max_sub_gb; p_min_sub_gb = x.p_min_sub_gb; p_max_sub_hr =
        x.p_max_sub_hr; p_min_sub_hr = x.p_min_sub_hr; p_node_share =
        x.p_node_share; p_sub_delay = x.p_sub_delay; p_sess_delay =
        x.p_sess_delay; p_sess_proof = x.p_sess_proof; p_swap_enabled =
        x.p_swap_enabled; p_swap_denom = x.p_swap_denom; p_swap_approver =
        x.p_swap_approver })) (fun _ -> coins_of c0) p) s)
| PCMaxSubGb z0 ->
  set (fun s0 -> s0.pars) (fun f ->
    let p = fun r -> f r.pars in
    (fun x -> { cfg = x.cfg; bank = x.bank; supply = x.supply; deposits =
    x.deposits; prov_act = x.prov_act; prov_inact = x.prov_inact; node_act =
    x.node_act; node_inact = x.node_inact; node_q = x.node_q; node_plan =
    x.node_plan; plan_count = x.plan_count; plan_act = x.plan_act;
    plan_inact = x.plan_inact; plan_prov = x.plan_prov; sub_count =
    x.sub_count; subs = x.subs; sub_q = x.sub_q; sub_acc = x.sub_acc;
    sub_node = x.sub_node; sub_plan = x.sub_plan; allocs = x.allocs;
    payouts = x.payouts; pay_q = x.pay_q; pay_acc = x.pay_acc; pay_node =
    x.pay_node; pay_acc_node = x.pay_acc_node; sess_count = x.sess_count;
    sessions = x.sessions; sess_q = x.sess_q; sess_acc = x.sess_acc;
    sess_node = x.sess_node; sess_sub = x.sess_sub; sess_alloc =
    x.sess_alloc; pars = (p x); modified = x.modified; swaps = x.swaps;
    inflations = x.inflations; mint_max = x.mint_max; mint_min = x.mint_min;
    mint_rate = x.mint_rate; mint_inflation = x.mint_inflation; now = x.now;
    events = x.events })) (fun p ->
    set (fun p0 -> p0.p_max_sub_gb) (fun f ->
      let z1 = fun r -> f r.p_max_sub_gb in
      (fun x -> { p_prov_deposit = x.p_prov_deposit; p_prov_share =
      x.p_prov_share; p_node_deposit = x.p_node_deposit; p_node_active =
      x.p_node_active; p_max_gb = x.p_max_gb; p_min_gb = x.p_min_gb;
      p_max_hr = x.p_max_hr; p_min_hr = x.p_min_hr; p_max_sub_gb = (z1 x);
      p_min_sub_gb = x.p_min_sub_gb; p_max_sub_hr = x.p_max_sub_hr;
      p_min_sub_hr = x.p_min_sub_hr; p_node_share = x.p_node_share;
      p_sub_delay = x.p_sub_delay; p_sess_delay = x.p_sess_delay;
      p_sess_proof = x.p_sess_proof; p_swap_enabled = x.p_swap_enabled;
      p_swap_denom = x.p_swap_denom; p_swap_approver = x.p_swap_approver }))
      (fun _ -> z0) p) s
| PCMinSubGb z0 ->
  set (fun s0 -> s0.pars) (fun f ->
    let p = fun r -> f r.pars in
    (fun x -> { cfg = x.cfg; bank = x.bank; supply = x.supply; deposits =
    x.deposits; prov_act = x.prov_act; prov_inact = x.prov_inact; node_act =
    x.node_act; node_inact = x.node_inact; node_q = x.node_q; node_plan =
    x.node_plan; plan_count = x.plan_count; plan_act = x.plan_act;
    plan_inact = x.plan_inact; plan_prov = x.plan_prov; sub_count =
    x.sub_count; subs = x.subs; sub_q = x.sub_q; sub_acc = x.sub_acc;
    sub_node = x.sub_node; sub_plan = x.sub_plan; allocs = x.allocs;
    payouts = x.payouts; pay_q = x.pay_q; pay_acc = x.pay_acc; pay_node =
    x.pay_node; pay_acc_node = x.pay_acc_node; sess_count = x.sess_count;
    sessions = x.sessions; sess_q = x.sess_q; sess_acc = x.sess_acc;
    sess_node = x.sess_node; sess_sub = x.sess_sub; sess_alloc =
    x.sess_alloc; pars = (p x); modified = x.modified; swaps = x.swaps;
    inflations = x.inflations; mint_max = x.mint_max; mint_min = x.mint_min;
    mint_rate = x.mint_rate; mint_inflation = x.mint_inflation; now = x.now;
    events = x.events })) (fun p ->
    set (fun p0 -> p0.p_min_sub_gb) (fun f ->
      let z1 = fun r -> f r.p_min_sub_gb in
      (fun x -> { p_prov_deposit = x.p_prov_deposit; p_prov_share =
      x.p_prov_share; p_node_deposit = x.p_node_deposit; p_node_active =
      x.p_node_active; p_max_gb = x.p_max_gb; p_min_gb = x.p_min_gb;
      p_max_hr = x.p_max_hr; p_min_hr = x.p_min_hr; p_max_sub_gb =
      x.p_max_sub_gb; p_min_sub_gb = (z1 x); p_max_sub_hr = x.p_max_sub_hr;
      p_min_sub_hr = x.p_min_sub_hr; p_node_share = x.p_node_share;
      p_sub_delay = x.p_sub_delay; p_sess_delay = x.p_sess_delay;
      p_sess_proof = x.p_sess_proof; p_swap_enabled = x.p_swap_enabled;
      p_swap_denom = x.p_swap_denom; p_swap_approver = x.p_swap_approver }))
      (fun _ -> z0) p) s
| PCMaxSubHr z0 ->
  set (fun s0 -> s0.pars) (fun f ->
    let p = fun r -> f r.pars in
    (fun x -> { cfg = x.cfg; bank = x.bank; supply = x.supply; deposits =
    x.deposits; prov_act = x.prov_act; prov_inact = x.prov_inact; node_act =
    x.node_act; node_inact = x.node_inact; node_q = x.node_q; node_plan =
    x.node_plan; plan_count = x.plan_count; plan_act = x.plan_act;
    plan_inact = x.plan_inact; plan_prov = x.plan_prov; sub_count =
    x.sub_count; subs = x.subs; sub_q = x.sub_q; sub_acc = x.sub_acc;
    sub_node = x.sub_node; sub_plan = x.sub_plan; allocs = x.allocs;
    payouts = x.payouts; pay_q = x.pay_q; pay_acc = x.pay_acc; pay_node =
    x.pay_node; pay_acc_node = x.pay_acc_node; sess_count = x.sess_count;
    sessions = x.sessions; sess_q = x.sess_q; sess_acc = x.sess_acc;
    sess_node = x.sess_node; sess_sub = x.sess_sub; sess_alloc =
    x.sess_alloc; pars = (p x); modified = x.modified; swaps = x.swaps;
    inflations = x.inflations; mint_max = x.mint_max; mint_min = x.mint_min;
    mint_rate = x.mint_rate; mint_inflation = x.mint_inflation; now = x.now;
    events = x.events })) (fun p ->
    set (fun p0 -> p0.p_max_sub_hr) (fun f ->
      let z1 = fun r -> f r.p_max_sub_hr in
      (fun x -> { p_prov_deposit = x.p_prov_deposit; p_prov_share =
      x.p_prov_share; p_node_deposit = x.p_node_deposit; p_node_active =
      x.p_node_active; p_max_gb = x.p_max_gb; p_min_gb = x.p_min_gb;
      p_max_hr = x.p_max_hr; p_min_hr = x.p_min_hr; p_max_sub_gb =
      x.p_max_sub_gb; p_min_sub_gb = x.p_min_sub_gb; p_max_sub_hr = (z1 x);
      p_min_sub_hr = x.p_min_sub_hr; p_node_share = x.p_node_share;
      p_sub_delay = x.p_sub_delay; p_sess_delay = x.p_sess_delay;
      p_sess_proof = x.p_sess_proof; p_swap_enabled = x.p_swap_enabled;
      p_swap_denom = x.p_swap_denom; p_swap_approver = x.p_swap_approver }))
      (fun _ -> z0) p) s
| PCMinSubHr z0 ->
  set (fun s0 -> s0.pars) (fun f ->
    let p = fun r -> f r.pars in
    (fun x -> { cfg = x.cfg; bank = x.bank; supply = x.supply; deposits =
    x.deposits; prov_act = x.prov_act; prov_inact = x.prov_inact; node_act =
    x.node_act; node_inact = x.node_inact; node_q = x.node_q; node_plan =
    x.node_plan; plan_count = x.plan_count; plan_act = x.plan_act;
    plan_inact = x.plan_inact; plan_prov = x.plan_prov; sub_count =
    x.sub_count; subs = x.subs; sub_q = x.sub_q; sub_acc = x.sub_acc;
    sub_node = x.sub_node; sub_plan = x.sub_plan; allocs = x.allocs;
    payouts = x.payouts; pay_q = x.pay_q; pay_acc = x.pay_acc; pay_node =
    x.pay_node; pay_acc_node = x.pay_acc_node; sess_count = x.sess_count;
    sessions = x.sessions; sess_q = x.sess_q; sess_acc = x.sess_acc;
    sess_node = x.sess_node; sess_sub = x.sess_sub; sess_alloc =
    x.sess_alloc; pars = (p x); modified = x.modified; swaps = x.swaps;
    inflations = x.inflations; mint_max = x.mint_max; mint_min = x.mint_min;
    mint_rate = x.mint_rate; mint_inflation = x.mint_inflation; now = x.now;
    events = x.events })) (fun p ->
    set (fun p0 -> p0.p_min_sub_hr) (fun f ->
      let z1 = fun r -> f r.p_min_sub_hr in
      (fun x -> { p_prov_deposit = x.p_prov_deposit; p_prov_share =
      x.p_prov_share; p_node_deposit = x.p_node_deposit; p_node_active =
      x.p_node_active; p_max_gb = x.p_max_gb; p_min_gb = x.p_min_gb;
      p_max_hr = x.p_max_hr; p_min_hr = x.p_min_hr; p_max_sub_gb =
      x.p_max_sub_gb; p_min_sub_gb = x.p_min_sub_gb; p_max_sub_hr =
      x.p_max_sub_hr; p_min_sub_hr = (z1 x); p_node_share = x.p_node_share;
      p_sub_delay = x.p_sub_delay; p_sess_delay = x.p_sess_delay;
      p_sess_proof = x.p_sess_proof; p_swap_enabled = x.p_swap_enabled;
      p_swap_denom = x.p_swap_denom; p_swap_approver = x.p_swap_approver }))
      (fun _ -> z0) p) s
| PCNodeShare z0 ->
  set (fun s0 -> s0.pars) (fun f ->
    let p = fun r -> f r.pars in
    (fun x -> { cfg = x.cfg; bank = x.bank; supply = x.supply; deposits =
    x.deposits; prov_act = x.prov_act; prov_inact = x.prov_inact; node_act =
    x.node_act; node_inact = x.node_inact; node_q = x.node_q; node_plan =
    x.node_plan; plan_count = x.plan_count; plan_act = x.plan_act;
    plan_inact = x.plan_inact; plan_prov = x.plan_prov; sub_count =
    x.sub_count; subs = x.subs; sub_q = x.sub_q; sub_acc = x.sub_acc;
    sub_node = x.sub_node; sub_plan = x.sub_plan; allocs = x.allocs;
    payouts = x.payouts; pay_q = x.pay_q; pay_acc = x.pay_acc; pay_node =
    x.pay_node; pay_acc_node = x.pay_acc_node; sess_count = x.sess_count;
    sessions = x.sessions; sess_q = x.sess_q; sess_acc = x.sess_acc;
    sess_node = x.sess_node; sess_sub = x.sess_sub; sess_alloc =
    x.sess_alloc; pars = (p x); modified = x.modified; swaps = x.swaps;
    inflations = x.inflations; mint_max = x.mint_max; mint_min = x.mint_min;
    mint_rate = x.mint_rate; mint_inflation = x.mint_inflation; now = x.now;
    events = x.events })) (fun p ->
    set (fun p0 -> p0.p_node_share) (fun f ->
      let z1 = fun r -> f r.p_node_share in
      (fun x -> { p_prov_deposit = x.p_prov_deposit; p_prov_share =
      x.p_prov_share; p_node_deposit = x.p_node_deposit; p_node_active =
      x.p_node_active; p_max_gb = x.p_max_gb; p_min_gb = x.p_min_gb;
      p_max_hr = x.p_max_hr; p_min_hr = x.p_min_hr; p_max_sub_gb =
      x.p_max_sub_gb; p_min_sub_gb = x.p_min_sub_gb; p_max_sub_hr =
      x.p_max_sub_hr; p_min_sub_hr = x.p_min_sub_hr; p_node_share = (z1 x);
      p_sub_delay = x.p_sub_delay; p_sess_delay = x.p_sess_delay;
      p_sess_proof = x.p_sess_proof; p_swap_enabled = x.p_swap_enabled;
      p_swap_denom = x.p_swap_denom; p_swap_approver = x.p_swap_approver }))
      (fun _ -> z0) p) s
| PCSubDelay z0 ->
  set (fun s0 -> s0.pars) (fun f ->
    let p = fun r -> f r.pars in
    (fun x -> { cfg = x.cfg; bank = x.bank; supply = x.supply; deposits =
    x.deposits; prov_act = x.prov_act; prov_inact = x.prov_inact; node_act =
    x.node_act; node_inact = x.node_inact; node_q = x.node_q; node_plan =
    x.node_plan; plan_count = x.plan_count; plan_act = x.plan_act;
    plan_inact = x.plan_inact; plan_prov = x.plan_prov; sub_count =
    x.sub_count; subs = x.subs; sub_q = x.sub_q; sub_acc = x.sub_acc;
    sub_node = x.sub_node; sub_plan = x.sub_plan; allocs = x.allocs;
    payouts = x.payouts; pay_q = x.pay_q; pay_acc = x.pay_acc; pay_node =
    x.pay_node; pay_acc_node = x.pay_acc_node; sess_count = x.sess_count;
    sessions = x.sessions; sess_q = x.sess_q; sess_acc = x.sess_acc;
    sess_node = x.sess_node; sess_sub = x.sess_sub; sess_alloc =
    x.sess_alloc; pars = (p x); modified = x.modified; swaps = x.swaps;
    inflations = x.inflations; mint_max = x.mint_max; mint_min = x.mint_min;
    mint_rate = x.mint_rate; mint_inflation = x.mint_inflation; now = x.now;
    events = x.events })) (fun p ->
    set (fun p0 -> p0.p_sub_delay) (fun f ->
      let z1 = fun r -> f r.p_sub_delay in
      (fun x -> { p_prov_deposit = x.p_prov_deposit; p_prov_share =
      x.p_prov_share; p_node_deposit = x.p_node_deposit; p_node_active =
      x.p_node_active; p_max_gb = x.p_max_gb; p_min_gb = x.p_min_gb;
      p_max_hr = x.p_max_hr; p_min_hr = x.p_min_hr; p_max_sub_gb =
      x.p_max_sub_gb; p_min_sub_gb = x.p_min_sub_gb; p_max_sub_hr =
      x.p_max_sub_hr; p_min_sub_hr = x.p_min_sub_hr; p_node_share =
      x.p_node_share; p_sub_delay = (z1 x); p_sess_delay = x.p_sess_delay;
      p_sess_proof = x.p_sess_proof; p_swap_enabled = x.p_swap_enabled;
      p_swap_denom = x.p_swap_denom; p_swap_approver = x.p_swap_approver }))
      (fun _ -> z0) p) s
| PCSessDelay z0 ->
  set (fun s0 -> s0.pars) (fun f ->
    let p = fun r -> f r.pars in
    (fun x -> { cfg = x.cfg; bank = x.bank; supply = x.supply; deposits =
    x.deposits; prov_act = x.prov_act; prov_inact = x.prov_inact; node_act =
    x.node_act; node_inact = x.node_inact; node_q = x.node_q; node_plan =
    x.node_plan; plan_count = x.plan_count; plan_act = x.plan_act;
    plan_inact = x.plan_inact; plan_prov = x.plan_prov; sub_count =
    x.sub_count; subs = x.subs; sub_q = x.sub_q; sub_acc = x.sub_acc;
    sub_node = x.sub_node; sub_plan = x.sub_plan; allocs = x.allocs;
    payouts = x.payouts; pay_q = x.pay_q; pay_acc = x.pay_acc; pay_node =
    x.pay_node; pay_acc_node = x.pay_acc_node; sess_count = x.sess_count;
    sessions = x.sessions; sess_q = x.sess_q; sess_acc = x.sess_acc;
    sess_node = x.sess_node; sess_sub = x.sess_sub; sess_alloc =
    x.sess_alloc; pars = (p x); modified = x.modified; swaps = x.swaps;
    inflations = x.inflations; mint_max = x.mint_max; mint_min = x.mint_min;
    mint_rate = x.mint_rate; mint_inflation = x.mint_inflation; now = x.now;
    events = x.events })) (fun p ->
    set (fun p0 -> p0.p_sess_delay) (fun f ->
      let z1 = fun r -> f r.p_sess_delay in
      (fun x -> { p_prov_deposit = x.p_prov_deposit; p_prov_share =
      x.p_prov_share; p_node_deposit = x.p_node_deposit; p_node_active =
      x.p_node_active; p_max_gb = x.p_max_gb; p_min_gb = x.p_min_gb;
      p_max_hr = x.p_max_hr; p_min_hr = x.p_min_hr; p_max_sub_gb =
      x.p_max_sub_gb; p_min_sub_gb = x.p_min_sub_gb; p_max_sub_hr =
      x.p_max_sub_hr; p_min_sub_hr = x.p_min_sub_hr; p_node_share =
      x.p_node_share; p_sub_delay = x.p_sub_delay; p_sess_delay = (z1 x);
      p_sess_proof = x.p_sess_proof; p_swap_enabled = x.p_swap_enabled;
      p_swap_denom = x.p_swap_denom; p_swap_approver = x.p_swap_approver }))
      (fun _ -> z0) p) s
| PCSessProof b ->
  set (fun s0 -> s0.pars) (fun f ->
    let p = fun r -> f r.pars in
    (fun x -> { cfg = x.cfg; bank = x.bank; supply = x.supply; deposits =
    x.deposits; prov_act = x.prov_act; prov_inact = x.prov_inact; node_act =
    x.node_act; node_inact = x.node_inact; node_q = x.node_q; node_plan =
    x.node_plan; plan_count = x.plan_count; plan_act = x.plan_act;
    plan_inact = x.plan_inact; plan_prov = x.plan_prov; sub_count =
    x.sub_count; subs = x.subs; sub_q = x.sub_q; sub_acc = x.sub_acc;
    sub_node = x.sub_node; sub_plan = x.sub_plan; allocs = x.allocs;
    payouts = x.payouts; pay_q = x.pay_q; pay_acc = x.pay_acc; pay_node =
    x.pay_node; pay_acc_node = x.pay_acc_node; sess_count = x.sess_count;
    sessions = x.sessions; sess_q = x.sess_q; sess_acc = x.sess_acc;
    sess_node = x.sess_node; sess_sub = x.sess_sub; sess_alloc =
    x.sess_alloc; pars = (p x); modified = x.modified; swaps = x.swaps;
    inflations = x.inflations; mint_max = x.mint_max; mint_min = x.mint_min;
    mint_rate = x.mint_rate; mint_inflation = x.mint_inflation; now = x.now;
    events = x.events })) (fun p ->
    set (fun p0 -> p0.p_sess_proof) (fun f ->
      let b0 = fun r -> f r.p_sess_proof in
      (fun x -> { p_prov_deposit = x.p_prov_deposit; p_prov_share =
      x.p_prov_share; p_node_deposit = x.p_node_deposit; p_node_active =
      x.p_node_active; p_max_gb = x.p_max_gb; p_min_gb = x.p_min_gb;
      p_max_hr = x.p_max_hr; p_min_hr = x.p_min_hr; p_max_sub_gb =
      x.p_max_sub_gb; p_min_sub_gb = x.p_min_sub_gb; p_max_sub_hr =
      x.p_max_sub_hr; p_min_sub_hr = x.p_min_sub_hr; p_node_share =
      x.p_node_share; p_sub_delay = x.p_sub_delay; p_sess_delay =
      x.p_sess_delay; p_sess_proof = (b0 x); p_swap_enabled =
      x.p_swap_enabled; p_swap_denom = x.p_swap_denom; p_swap_approver =
      x.p_swap_approver })) (fun _ -> b) p) s
| PCSwapEnabled b ->
  set (fun s0 -> s0.pars) (fun f ->
    let p = fun r -> f r.pars in
    (fun x -> { cfg = x.cfg; bank = x.bank; supply = x.supply; deposits =
    x.deposits; prov_act = x.prov_act; prov_inact = x.prov_inact; node_act =
    x.node_act; node_inact = x.node_inact; node_q = x.node_q; node_plan =
    x.node_plan; plan_count = x.plan_count; plan_act = x.plan_act;
    plan_inact = x.plan_inact; plan_prov = x.plan_prov; sub_count =
    x.sub_count; subs = x.subs; sub_q = x.sub_q; sub_acc = x.sub_acc;
    sub_node = x.sub_node; sub_plan = x.sub_plan; allocs = x.allocs;
    payouts = x.payouts; pay_q = x.pay_q; pay_acc = x.pay_acc; pay_node =
    x.pay_node; pay_acc_node = x.pay_acc_node; sess_count = x.sess_count;
    sessions = x.sessions; sess_q = x.sess_q; sess_acc = x.sess_acc;
    sess_node = x.sess_node; sess_sub = x.sess_sub; sess_alloc =
    x.sess_alloc; pars = (p x); modified = x.modified; swaps = x.swaps;
    inflations = x.inflations; mint_max = x.mint_max; mint_min = x.mint_min;
    mint_rate = x.mint_rate; mint_inflation = x.mint_inflation; now = x.now;
    events = x.events })) (fun p ->
    set (fun p0 -> p0.p_swap_enabled) (fun f ->
      let b0 = fun r -> f r.p_swap_enabled in
      (fun x -> { p_prov_deposit = x.p_prov_deposit; p_prov_share =
      x.p_prov_share; p_node_deposit = x.p_node_deposit; p_node_active =
      x.p_node_active; p_max_gb = x.p_max_gb; p_min_gb = x.p_min_gb;
      p_max_hr = x.p_max_hr; p_min_hr = x.p_min_hr; p_max_sub_gb =
      x.p_max_sub_gb; p_min_sub_gb = x.p_min_sub_gb; p_max_sub_hr =
      x.p_max_sub_hr; p_min_sub_hr = x.p_min_sub_hr; p_node_share =
      x.p_node_share; p_sub_delay = x.p_sub_delay; p_sess_delay =
      x.p_sess_delay; p_sess_proof = x.p_sess_proof; p_swap_enabled = 
      (b0 x); p_swap_denom = x.p_swap_denom; p_swap_approver =
      x.p_swap_approver })) (fun _ -> b) p) s
| PCSwapDenom d ->
  set (fun s0 -> s0.pars) (fun f ->
    let p = fun r -> f r.pars in
    (fun x -> { cfg = x.cfg; bank = x.bank; supply = x.supply; deposits =
    x.deposits; prov_act = x.prov_act; prov_inact = x.prov_inact; node_act =
    x.node_act; node_inact = x.node_inact; node_q = x.node_q; node_plan =
    x.node_plan; plan_count = x.plan_count; plan_act = x.plan_act;
    plan_inact = x.plan_inact; plan_prov = x.plan_prov; sub_count =
    x.sub_count; subs = x.subs; sub_q = x.sub_q; sub_acc = x.sub_acc;
    sub_node = x.sub_node; sub_plan = x.sub_plan; allocs = x.allocs;
    payouts = x.payouts; pay_q = x.pay_q; pay_acc = x.pay_acc; pay_node =
    x.pay_node; pay_acc_node = x.pay_acc_node; sess_count = x.sess_count;
    sessions = x.sessions; sess_q = x.sess_q; sess_acc = x.sess_acc;
    sess_node = x.sess_node; sess_sub = x.sess_sub; sess_alloc =
    x.sess_alloc; pars = (p x); modified = x.modified; swaps = x.swaps;
    inflations = x.inflations; mint_max = x.mint_max; mint_min = x.mint_min;
    mint_rate = x.mint_rate; mint_inflation = x.mint_inflation; now = x.now;
    events = x.events })) (fun p ->
    set (fun p0 -> p0.p_swap_denom) (fun f ->
      let d0 = fun r -> f r.p_swap_denom in
      (fun x -> { p_prov_deposit = x.p_prov_deposit; p_prov_share =
      x.p_prov_share; p_node_deposit = x.p_node_deposit; p_node_active =
      x.p_node_active; p_max_gb = x.p_max_gb; p_min_gb = x.p_min_gb;
      p_max_hr = x.p_max_hr; p_min_hr = x.p_min_hr; p_max_sub_gb =
      x.p_max_sub_gb; p_min_sub_gb = x.p_min_sub_gb; p_max_sub_hr =
      x.p_max_sub_hr; p_min_sub_hr = x.p_min_sub_hr; p_node_share =
      x.p_node_share; p_sub_delay = x.p_sub_delay; p_sess_delay =
      x.p_sess_delay; p_sess_proof = x.p_sess_proof; p_swap_enabled =
      x.p_swap_enabled; p_swap_denom = (d0 x); p_swap_approver =
      x.p_swap_approver })) (fun _ -> d) p) s
| PCSwapApprover t0 ->
  set (fun s0 -> s0.pars) (fun f ->
    let p = fun r -> f r.pars in
    (fun x -> { cfg = x.cfg; bank = x.bank; supply = x.supply; deposits =
    x.deposits; prov_act = x.prov_act; prov_inact = x.prov_inact; node_act =
    x.node_act; node_inact = x.node_inact; node_q = x.node_q; node_plan =
    x.node_plan; plan_count = x.plan_count; plan_act = x.plan_act;
    plan_inact = x.plan_inact; plan_prov = x.plan_prov; sub_count =
    x.sub_count; subs = x.subs; sub_q = x.sub_q; sub_acc = x.sub_acc;
    sub_node = x.sub_node; sub_plan = x.sub_plan; allocs = x.allocs;
    payouts = x.payouts; pay_q = x.pay_q; pay_acc = x.pay_acc; pay_node =
    x.pay_node; pay_acc_node = x.pay_acc_node; sess_count = x.sess_count;
    sessions = x.sessions; sess_q = x.sess_q; sess_acc = x.sess_acc;
    sess_node = x.sess_node; sess_sub = x.sess_sub; sess_alloc =
    x.sess_alloc; pars = (p x); modified = x.modified; swaps = x.swaps;
    inflations = x.inflations; mint_max = x.mint_max; mint_min = x.mint_min;
    mint_rate = x.mint_rate; mint_inflation = x.mint_inflation; now = x.now;
    events = x.events })) (fun p ->
    set (fun p0 -> p0.p_swap_approver) (fun f ->
      let t1 = fun r -> f r.p_swap_approver in
      (fun x -> { p_prov_deposit = x.p_prov_deposit; p_prov_share =
      x.p_prov_share; p_node_deposit = x.p_node_deposit; p_node_active =
      x.p_node_active; p_max_gb = x.p_max_gb; p_min_gb = x.p_min_gb;
      p_max_hr = x.p_max_hr; p_min_hr = x.p_min_hr; p_max_sub_gb =
      x.p_max_sub_gb; p_min_sub_gb = x.p_min_sub_gb; p_max_sub_hr =
      x.p_max_sub_hr; p_min_sub_hr = x.p_min_sub_hr; p_node_share =
      x.p_node_share; p_sub_delay = x.p_sub_delay; p_sess_delay =
      x.p_sess_delay; p_sess_proof = x.p_sess_proof; p_swap_enabled =
      x.p_swap_enabled; p_swap_denom = x.p_swap_denom; p_swap_approver =
      (t1 x) })) (fun _ -> t0) p) s

(** val no_flags : modflags **)

let no_flags =
  { m_max_gb = false; m_min_gb = false; m_max_hr = false; m_min_hr = false }

(** val all_flags : modflags **)

let all_flags =
  { m_max_gb = true; m_min_gb = true; m_max_hr = true; m_min_hr = true }

(** val clear_events : state -> state **)

let clear_events s =
  set (fun s0 -> s0.events) (fun f ->
    let l = fun r -> f r.events in
    (fun x -> { cfg = x.cfg; bank = x.bank; supply = x.supply; deposits =
    x.deposits; prov_act = x.prov_act; prov_inact = x.prov_inact; node_act =
    x.node_act; node_inact = x.node_inact; node_q = x.node_q; node_plan =
    x.node_plan; plan_count = x.plan_count; plan_act = x.plan_act;
    plan_inact = x.plan_inact; plan_prov = x.plan_prov; sub_count =
    x.sub_count; subs = x.subs; sub_q = x.sub_q; sub_acc = x.sub_acc;
    sub_node = x.sub_node; sub_plan = x.sub_plan; allocs = x.allocs;
    payouts = x.payouts; pay_q = x.pay_q; pay_acc = x.pay_acc; pay_node =
    x.pay_node; pay_acc_node = x.pay_acc_node; sess_count = x.sess_count;
    sessions = x.sessions; sess_q = x.sess_q; sess_acc = x.sess_acc;
    sess_node = x.sess_node; sess_sub = x.sess_sub; sess_alloc =
    x.sess_alloc; pars = x.pars; modified = x.modified; swaps = x.swaps;
    inflations = x.inflations; mint_max = x.mint_max; mint_min = x.mint_min;
    mint_rate = x.mint_rate; mint_inflation = x.mint_inflation; now = x.now;
    events = (l x) })) (fun _ -> []) s

(** val i64MAX : z **)

let i64MAX =
  Zpos (XI (XI (XI (XI (XI (XI (XI (XI (XI (XI (XI (XI (XI (XI (XI (XI (XI
    (XI (XI (XI (XI (XI (XI (XI (XI (XI (XI (XI (XI (XI (XI (XI (XI (XI (XI
    (XI (XI (XI (XI (XI (XI (XI (XI (XI (XI (XI (XI (XI (XI (XI (XI (XI (XI
    (XI (XI (XI (XI (XI (XI (XI (XI (XI
    XH))))))))))))))))))))))))))))))))))))))))))))))))))))))))))))))

(** val pos_i64 : z -> bool **)

let pos_i64 z0 =
  (&&) (Z.ltb Z0 z0) (Z.leb z0 i64MAX)

(** val coins_param_ok : coin list -> bool **)

let coins_param_ok l =
  (||) (bool_decide (list_eq_nil_dec l)) (coins_sorted l)

(** val coin_param_ok : coin -> bool **)

let coin_param_ok c =
  (&&) ((&&) (Z.leb Z0 (snd c)) (Z.ltb (snd c) mAXINT)) (denom_ok (fst c))

(** val share_ok : z -> bool **)

let share_ok z0 =
  (&&) (Z.leb Z0 z0) (Z.leb z0 p18)

(** val pchange_valid : pchange -> bool **)

let pchange_valid = function
| PCProvDeposit c0 -> coin_param_ok c0
| PCProvShare z0 -> share_ok z0
| PCNodeDeposit c0 -> coin_param_ok c0
| PCNodeActive z0 -> pos_i64 z0
| PCMaxGb c0 -> coins_param_ok c0
| PCMinGb c0 -> coins_param_ok c0
| PCMaxHr c0 -> coins_param_ok c0
| PCMinHr c0 -> coins_param_ok c0
| PCMaxSubGb z0 -> pos_i64 z0
| PCMinSubGb z0 -> pos_i64 z0
| PCMaxSubHr z0 -> pos_i64 z0
| PCMinSubHr z0 -> pos_i64 z0
| PCNodeShare z0 -> share_ok z0
| PCSubDelay z0 -> pos_i64 z0
| PCSessDelay z0 -> pos_i64 z0
| PCSwapDenom d -> denom_ok d
| PCSwapApprover t0 -> ta_valid RAcc t0
| _ -> true

(** val step : state -> op -> outcome **)

let step s o =
  let s0 = clear_events s in
  (match o with
   | OBegin t0 ->
     (match begin_block
              (set (fun s1 -> s1.now) (fun f ->
                let t1 = fun r -> f r.now in
                (fun x -> { cfg = x.cfg; bank = x.bank; supply = x.supply;
                deposits = x.deposits; prov_act = x.prov_act; prov_inact =
                x.prov_inact; node_act = x.node_act; node_inact =
                x.node_inact; node_q = x.node_q; node_plan = x.node_plan;
                plan_count = x.plan_count; plan_act = x.plan_act;
                plan_inact = x.plan_inact; plan_prov = x.plan_prov;
                sub_count = x.sub_count; subs = x.subs; sub_q = x.sub_q;
                sub_acc = x.sub_acc; sub_node = x.sub_node; sub_plan =
                x.sub_plan; allocs = x.allocs; payouts = x.payouts; pay_q =
                x.pay_q; pay_acc = x.pay_acc; pay_node = x.pay_node;
                pay_acc_node = x.pay_acc_node; sess_count = x.sess_count;
                sessions = x.sessions; sess_q = x.sess_q; sess_acc =
                x.sess_acc; sess_node = x.sess_node; sess_sub = x.sess_sub;
                sess_alloc = x.sess_alloc; pars = x.pars; modified =
                x.modified; swaps = x.swaps; inflations = x.inflations;
                mint_max = x.mint_max; mint_min = x.mint_min; mint_rate =
                x.mint_rate; mint_inflation = x.mint_inflation; now = 
                (t1 x); events = x.events })) (fun _ -> t0) s0) with
      | Ok s' -> OOk s'
      | _ -> OHalt)
   | OTx m -> (match run_tx s0 m with
               | Ok s' -> OOk s'
               | _ -> ORejected)
   | OGov cs ->
     if forallb pchange_valid cs
     then OOk (fold_left apply_pchange cs s0)
     else ORejected
   | OEnd ->
     (match end_block s0 with
      | Ok s' ->
        OOk
          (set (fun s1 -> s1.modified) (fun f ->
            let m = fun r -> f r.modified in
            (fun x -> { cfg = x.cfg; bank = x.bank; supply = x.supply;
            deposits = x.deposits; prov_act = x.prov_act; prov_inact =
            x.prov_inact; node_act = x.node_act; node_inact = x.node_inact;
            node_q = x.node_q; node_plan = x.node_plan; plan_count =
            x.plan_count; plan_act = x.plan_act; plan_inact = x.plan_inact;
            plan_prov = x.plan_prov; sub_count = x.sub_count; subs = x.subs;
            sub_q = x.sub_q; sub_acc = x.sub_acc; sub_node = x.sub_node;
            sub_plan = x.sub_plan; allocs = x.allocs; payouts = x.payouts;
            pay_q = x.pay_q; pay_acc = x.pay_acc; pay_node = x.pay_node;
            pay_acc_node = x.pay_acc_node; sess_count = x.sess_count;
            sessions = x.sessions; sess_q = x.sess_q; sess_acc = x.sess_acc;
            sess_node = x.sess_node; sess_sub = x.sess_sub; sess_alloc =
            x.sess_alloc; pars = x.pars; modified = (m x); swaps = x.swaps;
            inflations = x.inflations; mint_max = x.mint_max; mint_min =
            x.mint_min; mint_rate = x.mint_rate; mint_inflation =
            x.mint_inflation; now = x.now; events = x.events })) (fun _ ->
            no_flags) s')
      | _ -> OHalt))

type run_result =
| RunOk of state
| RunHalt of state * nat

(** val run_from : state -> op list -> nat -> run_result **)

let rec run_from s ops i =
  match ops with
  | [] -> RunOk s
  | o :: ops' ->
    (match step s o with
     | OOk s' -> run_from s' ops' (S i)
     | ORejected -> run_from (clear_events s) ops' (S i)
     | OHalt -> RunHalt (s, i))

(** val run : state -> op list -> run_result **)

let run s ops =
  run_from s ops O

type genesis = { g_cfg : config; g_balances : (addr * coin) list;
                 g_params : params; g_inflations : inflation list;
                 g_mint : (((z * z) * z) * z); g_time : time }

(** val empty_state : config -> params -> state **)

let empty_state c p =
  { cfg = c; bank =
    (empty0
      (gmap_empty (list_eq_dec0 n_eq_dec)
        (list_countable n_eq_dec n_countable))); supply =
    (empty0 (gmap_empty n_eq_dec n_countable)); deposits =
    (empty0
      (gmap_empty (list_eq_dec0 n_eq_dec)
        (list_countable n_eq_dec n_countable))); prov_act =
    (empty0
      (gmap_empty (list_eq_dec0 n_eq_dec)
        (list_countable n_eq_dec n_countable))); prov_inact =
    (empty0
      (gmap_empty (list_eq_dec0 n_eq_dec)
        (list_countable n_eq_dec n_countable))); node_act =
    (empty0
      (gmap_empty (list_eq_dec0 n_eq_dec)
        (list_countable n_eq_dec n_countable))); node_inact =
    (empty0
      (gmap_empty (list_eq_dec0 n_eq_dec)
        (list_countable n_eq_dec n_countable))); node_q =
    (empty0
      (gset_empty (prod_eq_dec Coq_Z.eq_dec (list_eq_dec0 n_eq_dec))
        (prod_countable Coq_Z.eq_dec z_countable (list_eq_dec0 n_eq_dec)
          (list_countable n_eq_dec n_countable)))); node_plan =
    (empty0
      (gset_empty (prod_eq_dec Coq_Z.eq_dec (list_eq_dec0 n_eq_dec))
        (prod_countable Coq_Z.eq_dec z_countable (list_eq_dec0 n_eq_dec)
          (list_countable n_eq_dec n_countable)))); plan_count = Z0;
    plan_act = (empty0 (gmap_empty Coq_Z.eq_dec z_countable)); plan_inact =
    (empty0 (gmap_empty Coq_Z.eq_dec z_countable)); plan_prov =
    (empty0
      (gset_empty (prod_eq_dec (list_eq_dec0 n_eq_dec) Coq_Z.eq_dec)
        (prod_countable (list_eq_dec0 n_eq_dec)
          (list_countable n_eq_dec n_countable) Coq_Z.eq_dec z_countable)));
    sub_count = Z0; subs = (empty0 (gmap_empty Coq_Z.eq_dec z_countable));
    sub_q =
    (empty0
      (gset_empty (prod_eq_dec Coq_Z.eq_dec Coq_Z.eq_dec)
        (prod_countable Coq_Z.eq_dec z_countable Coq_Z.eq_dec z_countable)));
    sub_acc =
    (empty0
      (gset_empty (prod_eq_dec (list_eq_dec0 n_eq_dec) Coq_Z.eq_dec)
        (prod_countable (list_eq_dec0 n_eq_dec)
          (list_countable n_eq_dec n_countable) Coq_Z.eq_dec z_countable)));
    sub_node =
    (empty0
      (gset_empty (prod_eq_dec (list_eq_dec0 n_eq_dec) Coq_Z.eq_dec)
        (prod_countable (list_eq_dec0 n_eq_dec)
          (list_countable n_eq_dec n_countable) Coq_Z.eq_dec z_countable)));
    sub_plan =
    (empty0
      (gset_empty (prod_eq_dec Coq_Z.eq_dec Coq_Z.eq_dec)
        (prod_countable Coq_Z.eq_dec z_countable Coq_Z.eq_dec z_countable)));
    allocs =
    (empty0
      (gmap_empty (prod_eq_dec Coq_Z.eq_dec (list_eq_dec0 n_eq_dec))
        (prod_countable Coq_Z.eq_dec z_countable (list_eq_dec0 n_eq_dec)
          (list_countable n_eq_dec n_countable)))); payouts =
    (empty0 (gmap_empty Coq_Z.eq_dec z_countable)); pay_q =
    (empty0
      (gset_empty (prod_eq_dec Coq_Z.eq_dec Coq_Z.eq_dec)
        (prod_countable Coq_Z.eq_dec z_countable Coq_Z.eq_dec z_countable)));
    pay_acc =
    (empty0
      (gset_empty (prod_eq_dec (list_eq_dec0 n_eq_dec) Coq_Z.eq_dec)
        (prod_countable (list_eq_dec0 n_eq_dec)
          (list_countable n_eq_dec n_countable) Coq_Z.eq_dec z_countable)));
    pay_node =
    (empty0
      (gset_empty (prod_eq_dec (list_eq_dec0 n_eq_dec) Coq_Z.eq_dec)
        (prod_countable (list_eq_dec0 n_eq_dec)
          (list_countable n_eq_dec n_countable) Coq_Z.eq_dec z_countable)));
    pay_acc_node =
    (empty0
      (gset_empty
        (prod_eq_dec
          (prod_eq_dec (list_eq_dec0 n_eq_dec) (list_eq_dec0 n_eq_dec))
          Coq_Z.eq_dec)
        (prod_countable
          (prod_eq_dec (list_eq_dec0 n_eq_dec) (list_eq_dec0 n_eq_dec))
          (prod_countable (list_eq_dec0 n_eq_dec)
            (list_countable n_eq_dec n_countable) (list_eq_dec0 n_eq_dec)
            (list_countable n_eq_dec n_countable)) Coq_Z.eq_dec z_countable)));
    sess_count = Z0; sessions =
    (empty0 (gmap_empty Coq_Z.eq_dec z_countable)); sess_q =
    (empty0
      (gset_empty (prod_eq_dec Coq_Z.eq_dec Coq_Z.eq_dec)
        (prod_countable Coq_Z.eq_dec z_countable Coq_Z.eq_dec z_countable)));
    sess_acc =
    (empty0
      (gset_empty (prod_eq_dec (list_eq_dec0 n_eq_dec) Coq_Z.eq_dec)
        (prod_countable (list_eq_dec0 n_eq_dec)
          (list_countable n_eq_dec n_countable) Coq_Z.eq_dec z_countable)));
    sess_node =
    (empty0
      (gset_empty (prod_eq_dec (list_eq_dec0 n_eq_dec) Coq_Z.eq_dec)
        (prod_countable (list_eq_dec0 n_eq_dec)
          (list_countable n_eq_dec n_countable) Coq_Z.eq_dec z_countable)));
    sess_sub =
    (empty0
      (gset_empty (prod_eq_dec Coq_Z.eq_dec Coq_Z.eq_dec)
        (prod_countable Coq_Z.eq_dec z_countable Coq_Z.eq_dec z_countable)));
    sess_alloc =
    (empty0
      (gset_empty
        (prod_eq_dec (prod_eq_dec Coq_Z.eq_dec (list_eq_dec0 n_eq_dec))
          Coq_Z.eq_dec)
        (prod_countable (prod_eq_dec Coq_Z.eq_dec (list_eq_dec0 n_eq_dec))
          (prod_countable Coq_Z.eq_dec z_countable (list_eq_dec0 n_eq_dec)
            (list_countable n_eq_dec n_countable)) Coq_Z.eq_dec z_countable)));
    pars = p; modified = all_flags; swaps =
    (empty0
      (gmap_empty (list_eq_dec0 n_eq_dec)
        (list_countable n_eq_dec n_countable))); inflations =
    (empty0 (gmap_empty Coq_Z.eq_dec z_countable)); mint_max = Z0; mint_min =
    Z0; mint_rate = Z0; mint_inflation = Z0; now = Z0; events = [] }

(** val init : genesis -> state **)

let init g =
  let s0 = empty_state g.g_cfg g.g_params in
  let s1 =
    fold_left (fun s pat ->
      let (a, y) = pat in
      let (d, v) = y in
      set_bal
        (set (fun s1 -> s1.supply) (fun f ->
          let g0 = fun r -> f r.supply in
          (fun x -> { cfg = x.cfg; bank = x.bank; supply = (g0 x); deposits =
          x.deposits; prov_act = x.prov_act; prov_inact = x.prov_inact;
          node_act = x.node_act; node_inact = x.node_inact; node_q =
          x.node_q; node_plan = x.node_plan; plan_count = x.plan_count;
          plan_act = x.plan_act; plan_inact = x.plan_inact; plan_prov =
          x.plan_prov; sub_count = x.sub_count; subs = x.subs; sub_q =
          x.sub_q; sub_acc = x.sub_acc; sub_node = x.sub_node; sub_plan =
          x.sub_plan; allocs = x.allocs; payouts = x.payouts; pay_q =
          x.pay_q; pay_acc = x.pay_acc; pay_node = x.pay_node; pay_acc_node =
          x.pay_acc_node; sess_count = x.sess_count; sessions = x.sessions;
          sess_q = x.sess_q; sess_acc = x.sess_acc; sess_node = x.sess_node;
          sess_sub = x.sess_sub; sess_alloc = x.sess_alloc; pars = x.pars;
          modified = x.modified; swaps = x.swaps; inflations = x.inflations;
          mint_max = x.mint_max; mint_min = x.mint_min; mint_rate =
          x.mint_rate; mint_inflation = x.mint_inflation; now = x.now;
          events = x.events })) (fun c -> coins_add c d v) s) a d
        (Z.add (bal s a d) v)) g.g_balances s0
  in
  let (p, inf) = g.g_mint in
  let (p0, rc) = p in
  let (mx, mn) = p0 in
  set (fun s -> s.now) (fun f ->
    let t0 = fun r -> f r.now in
    (fun x -> { cfg = x.cfg; bank = x.bank; supply = x.supply; deposits =
    x.deposits; prov_act = x.prov_act; prov_inact = x.prov_inact; node_act =
    x.node_act; node_inact = x.node_inact; node_q = x.node_q; node_plan =
    x.node_plan; plan_count = x.plan_count; plan_act = x.plan_act;
    plan_inact = x.plan_inact; plan_prov = x.plan_prov; sub_count =
    x.sub_count; subs = x.subs; sub_q = x.sub_q; sub_acc = x.sub_acc;
    sub_node = x.sub_node; sub_plan = x.sub_plan; allocs = x.allocs;
    payouts = x.payouts; pay_q = x.pay_q; pay_acc = x.pay_acc; pay_node =
    x.pay_node; pay_acc_node = x.pay_acc_node; sess_count = x.sess_count;
    sessions = x.sessions; sess_q = x.sess_q; sess_acc = x.sess_acc;
    sess_node = x.sess_node; sess_sub = x.sess_sub; sess_alloc =
    x.sess_alloc; pars = x.pars; modified = x.modified; swaps = x.swaps;
    inflations = x.inflations; mint_max = x.mint_max; mint_min = x.mint_min;
    mint_rate = x.mint_rate; mint_inflation = x.mint_inflation; now = 
    (t0 x); events = x.events })) (fun _ -> g.g_time)
    (set (fun s -> s.mint_inflation) (fun f ->
      let z0 = fun r -> f r.mint_inflation in
      (fun x -> { cfg = x.cfg; bank = x.bank; supply = x.supply; deposits =
      x.deposits; prov_act = x.prov_act; prov_inact = x.prov_inact;
      node_act = x.node_act; node_inact = x.node_inact; node_q = x.node_q;
      node_plan = x.node_plan; plan_count = x.plan_count; plan_act =
      x.plan_act; plan_inact = x.plan_inact; plan_prov = x.plan_prov;
      sub_count = x.sub_count; subs = x.subs; sub_q = x.sub_q; sub_acc =
      x.sub_acc; sub_node = x.sub_node; sub_plan = x.sub_plan; allocs =
      x.allocs; payouts = x.payouts; pay_q = x.pay_q; pay_acc = x.pay_acc;
      pay_node = x.pay_node; pay_acc_node = x.pay_acc_node; sess_count =
      x.sess_count; sessions = x.sessions; sess_q = x.sess_q; sess_acc =
      x.sess_acc; sess_node = x.sess_node; sess_sub = x.sess_sub;
      sess_alloc = x.sess_alloc; pars = x.pars; modified = x.modified;
      swaps = x.swaps; inflations = x.inflations; mint_max = x.mint_max;
      mint_min = x.mint_min; mint_rate = x.mint_rate; mint_inflation =
      (z0 x); now = x.now; events = x.events })) (fun _ -> inf)
      (set (fun s -> s.mint_rate) (fun f ->
        let z0 = fun r -> f r.mint_rate in
        (fun x -> { cfg = x.cfg; bank = x.bank; supply = x.supply; deposits =
        x.deposits; prov_act = x.prov_act; prov_inact = x.prov_inact;
        node_act = x.node_act; node_inact = x.node_inact; node_q = x.node_q;
        node_plan = x.node_plan; plan_count = x.plan_count; plan_act =
        x.plan_act; plan_inact = x.plan_inact; plan_prov = x.plan_prov;
        sub_count = x.sub_count; subs = x.subs; sub_q = x.sub_q; sub_acc =
        x.sub_acc; sub_node = x.sub_node; sub_plan = x.sub_plan; allocs =
        x.allocs; payouts = x.payouts; pay_q = x.pay_q; pay_acc = x.pay_acc;
        pay_node = x.pay_node; pay_acc_node = x.pay_acc_node; sess_count =
        x.sess_count; sessions = x.sessions; sess_q = x.sess_q; sess_acc =
        x.sess_acc; sess_node = x.sess_node; sess_sub = x.sess_sub;
        sess_alloc = x.sess_alloc; pars = x.pars; modified = x.modified;
        swaps = x.swaps; inflations = x.inflations; mint_max = x.mint_max;
        mint_min = x.mint_min; mint_rate = (z0 x); mint_inflation =
        x.mint_inflation; now = x.now; events = x.events })) (fun _ -> rc)
        (set (fun s -> s.mint_min) (fun f ->
          let z0 = fun r -> f r.mint_min in
          (fun x -> { cfg = x.cfg; bank = x.bank; supply = x.supply;
          deposits = x.deposits; prov_act = x.prov_act; prov_inact =
          x.prov_inact; node_act = x.node_act; node_inact = x.node_inact;
          node_q = x.node_q; node_plan = x.node_plan; plan_count =
          x.plan_count; plan_act = x.plan_act; plan_inact = x.plan_inact;
          plan_prov = x.plan_prov; sub_count = x.sub_count; subs = x.subs;
          sub_q = x.sub_q; sub_acc = x.sub_acc; sub_node = x.sub_node;
          sub_plan = x.sub_plan; allocs = x.allocs; payouts = x.payouts;
          pay_q = x.pay_q; pay_acc = x.pay_acc; pay_node = x.pay_node;
          pay_acc_node = x.pay_acc_node; sess_count = x.sess_count;
          sessions = x.sessions; sess_q = x.sess_q; sess_acc = x.sess_acc;
          sess_node = x.sess_node; sess_sub = x.sess_sub; sess_alloc =
          x.sess_alloc; pars = x.pars; modified = x.modified; swaps =
          x.swaps; inflations = x.inflations; mint_max = x.mint_max;
          mint_min = (z0 x); mint_rate = x.mint_rate; mint_inflation =
          x.mint_inflation; now = x.now; events = x.events })) (fun _ -> mn)
          (set (fun s -> s.mint_max) (fun f ->
            let z0 = fun r -> f r.mint_max in
            (fun x -> { cfg = x.cfg; bank = x.bank; supply = x.supply;
            deposits = x.deposits; prov_act = x.prov_act; prov_inact =
            x.prov_inact; node_act = x.node_act; node_inact = x.node_inact;
            node_q = x.node_q; node_plan = x.node_plan; plan_count =
            x.plan_count; plan_act = x.plan_act; plan_inact = x.plan_inact;
            plan_prov = x.plan_prov; sub_count = x.sub_count; subs = x.subs;
            sub_q = x.sub_q; sub_acc = x.sub_acc; sub_node = x.sub_node;
            sub_plan = x.sub_plan; allocs = x.allocs; payouts = x.payouts;
            pay_q = x.pay_q; pay_acc = x.pay_acc; pay_node = x.pay_node;
            pay_acc_node = x.pay_acc_node; sess_count = x.sess_count;
            sessions = x.sessions; sess_q = x.sess_q; sess_acc = x.sess_acc;
            sess_node = x.sess_node; sess_sub = x.sess_sub; sess_alloc =
            x.sess_alloc; pars = x.pars; modified = x.modified; swaps =
            x.swaps; inflations = x.inflations; mint_max = (z0 x); mint_min =
            x.mint_min; mint_rate = x.mint_rate; mint_inflation =
            x.mint_inflation; now = x.now; events = x.events })) (fun _ ->
            mx)
            (set (fun s -> s.inflations) (fun f ->
              let g0 = fun r -> f r.inflations in
              (fun x -> { cfg = x.cfg; bank = x.bank; supply = x.supply;
              deposits = x.deposits; prov_act = x.prov_act; prov_inact =
              x.prov_inact; node_act = x.node_act; node_inact = x.node_inact;
              node_q = x.node_q; node_plan = x.node_plan; plan_count =
              x.plan_count; plan_act = x.plan_act; plan_inact = x.plan_inact;
              plan_prov = x.plan_prov; sub_count = x.sub_count; subs =
              x.subs; sub_q = x.sub_q; sub_acc = x.sub_acc; sub_node =
              x.sub_node; sub_plan = x.sub_plan; allocs = x.allocs; payouts =
              x.payouts; pay_q = x.pay_q; pay_acc = x.pay_acc; pay_node =
              x.pay_node; pay_acc_node = x.pay_acc_node; sess_count =
              x.sess_count; sessions = x.sessions; sess_q = x.sess_q;
              sess_acc = x.sess_acc; sess_node = x.sess_node; sess_sub =
              x.sess_sub; sess_alloc = x.sess_alloc; pars = x.pars;
              modified = x.modified; swaps = x.swaps; inflations = (g0 x);
              mint_max = x.mint_max; mint_min = x.mint_min; mint_rate =
              x.mint_rate; mint_inflation = x.mint_inflation; now = x.now;
              events = x.events })) (fun _ ->
              list_to_map
                (map_insert (gmap_partial_alter Coq_Z.eq_dec z_countable))
                (gmap_empty Coq_Z.eq_dec z_countable)
                (map (fun i -> (i.inf_ts, i)) g.g_inflations)) s1)))))

(** val bIG : z **)

let bIG =
  Z.pow (Zpos (XO XH)) (Zpos (XO (XI (XO (XI (XI (XI (XI XH))))))))

(** val msg_sender : msg -> taddr **)

let msg_sender = function
| MProvRegister (f, _, _, _, _, _) -> f
| MProvUpdate (f, _, _, _, _, _, _) -> f
| MNodeRegister (f, _, _, _, _) -> f
| MNodeUpdateDetails (f, _, _, _, _) -> f
| MNodeUpdateStatus (f, _) -> f
| MNodeSubscribe (f, _, _, _, _) -> f
| MPlanCreate (f, _, _, _) -> f
| MPlanUpdateStatus (f, _, _) -> f
| MPlanLink (f, _, _) -> f
| MPlanUnlink (f, _, _) -> f
| MPlanSubscribe (f, _, _) -> f
| MSubCancel (f, _) -> f
| MSubAllocate (f, _, _, _) -> f
| MSessStart (f, _, _) -> f
| MSessUpdate (f, _, _, _, _, _, _) -> f
| MSessEnd (f, _, _) -> f
| MSwap (f, _, _, _) -> f

(** val bal_small_b : state -> addr -> bool **)

let bal_small_b s a =
  bool_decide
    (map_Forall_dec (fun _ _ -> gmap_fmap n_eq_dec n_countable) (fun _ ->
      gmap_lookup n_eq_dec n_countable) (fun _ ->
      gmap_empty n_eq_dec n_countable) (fun _ ->
      gmap_partial_alter n_eq_dec n_countable) (fun _ _ ->
      gmap_omap n_eq_dec n_countable) (fun _ _ _ ->
      gmap_merge n_eq_dec n_countable) (fun _ ->
      gmap_to_list n_eq_dec n_countable) n_eq_dec (fun _ x ->
      decide_rel Coq_Z.lt_dec x bIG)
      (from_option (Obj.magic id) (empty0 (gmap_empty n_eq_dec n_countable))
        (lookup0
          (gmap_lookup (list_eq_dec0 n_eq_dec)
            (list_countable n_eq_dec n_countable)) a s.bank)))

(** val par_ok_b : params -> bool **)

let par_ok_b p =
  (&&)
    ((&&)
      ((&&)
        ((&&)
          ((&&)
            ((&&) ((&&) (Z.ltb Z0 p.p_sub_delay) (Z.ltb Z0 p.p_sess_delay))
              (Z.leb p.p_sess_delay p.p_sub_delay))
            (Z.ltb Z0 p.p_node_active)) (Z.leb Z0 p.p_node_share))
        (Z.leb p.p_node_share p18)) (Z.leb Z0 p.p_prov_share))
    (Z.leb p.p_prov_share p18)

(** val wf_op_c03_b : state -> op -> bool **)

let wf_op_c03_b s = function
| OBegin t0 -> Z.ltb s.now t0
| OTx m ->
  (&&)
    (bool_decide
      (not_dec
        (decide_rel (elem_of_list_dec (list_eq_dec0 n_eq_dec))
          (msg_sender m).ta_bytes s.cfg.c_blocked)))
    (bal_small_b s (msg_sender m).ta_bytes)
| OGov cs ->
  let s' = fold_left apply_pchange cs s in
  (||) (negb (forallb pchange_valid cs))
    ((&&) (Z.leb s'.pars.p_sess_delay s'.pars.p_sub_delay)
      (bool_decide
        (map_Forall_dec
          (Obj.magic (fun _ _ -> gmap_fmap Coq_Z.eq_dec z_countable))
          (Obj.magic (fun _ -> gmap_lookup Coq_Z.eq_dec z_countable))
          (fun _ -> gmap_empty Coq_Z.eq_dec z_countable)
          (Obj.magic (fun _ -> gmap_partial_alter Coq_Z.eq_dec z_countable))
          (Obj.magic (fun _ _ -> gmap_omap Coq_Z.eq_dec z_countable))
          (Obj.magic (fun _ _ _ -> gmap_merge Coq_Z.eq_dec z_countable))
          (Obj.magic (fun _ -> gmap_to_list Coq_Z.eq_dec z_countable))
          Coq_Z.eq_dec (fun _ x ->
          impl_dec (decide_rel status_eq_dec x.ss_status SPending)
            (decide_rel Coq_Z.le_dec x.ss_inactive_at
              (Z.add s.now s'.pars.p_sub_delay))) s.sessions)))
| OEnd -> true

(** val wf_genesis_b : genesis -> bool **)

let wf_genesis_b g =
  (&&)
    ((&&) (par_ok_b g.g_params)
      (forallb (fun it ->
        mint_params_valid it.inf_max it.inf_min it.inf_rate) g.g_inflations))
    (bool_decide
      (decide_rel (elem_of_list_dec (list_eq_dec0 n_eq_dec))
        g.g_cfg.c_deposit g.g_cfg.c_blocked))

(** val d_bank : state -> (addr * coin list) list **)

let d_bank s =
  map (fun kv -> ((fst kv), (coins_list (snd kv))))
    (map_to_list
      (gmap_to_list (list_eq_dec0 n_eq_dec)
        (list_countable n_eq_dec n_countable)) s.bank)

(** val d_supply : state -> coin list **)

let d_supply s =
  coins_list s.supply

(** val d_deposits : state -> (addr * coin list) list **)

let d_deposits s =
  map (fun kv -> ((fst kv), (coins_list (snd kv))))
    (map_to_list
      (gmap_to_list (list_eq_dec0 n_eq_dec)
        (list_countable n_eq_dec n_countable)) s.deposits)

(** val d_prov_act : state -> (addr * provider) list **)

let d_prov_act s =
  map_to_list
    (gmap_to_list (list_eq_dec0 n_eq_dec)
      (list_countable n_eq_dec n_countable)) s.prov_act

(** val d_prov_inact : state -> (addr * provider) list **)

let d_prov_inact s =
  map_to_list
    (gmap_to_list (list_eq_dec0 n_eq_dec)
      (list_countable n_eq_dec n_countable)) s.prov_inact

(** val d_node_act : state -> (addr * node) list **)

let d_node_act s =
  map_to_list
    (gmap_to_list (list_eq_dec0 n_eq_dec)
      (list_countable n_eq_dec n_countable)) s.node_act

(** val d_node_inact : state -> (addr * node) list **)

let d_node_inact s =
  map_to_list
    (gmap_to_list (list_eq_dec0 n_eq_dec)
      (list_countable n_eq_dec n_countable)) s.node_inact

(** val d_plan_act : state -> (z * plan) list **)

let d_plan_act s =
  map_to_list (gmap_to_list Coq_Z.eq_dec z_countable) s.plan_act

(** val d_plan_inact : state -> (z * plan) list **)

let d_plan_inact s =
  map_to_list (gmap_to_list Coq_Z.eq_dec z_countable) s.plan_inact

(** val d_subs : state -> (z * subscription) list **)

let d_subs s =
  map_to_list (gmap_to_list Coq_Z.eq_dec z_countable) s.subs

(** val d_allocs : state -> ((z * addr) * allocation) list **)

let d_allocs s =
  map_to_list
    (gmap_to_list (prod_eq_dec Coq_Z.eq_dec (list_eq_dec0 n_eq_dec))
      (prod_countable Coq_Z.eq_dec z_countable (list_eq_dec0 n_eq_dec)
        (list_countable n_eq_dec n_countable))) s.allocs

(** val d_payouts : state -> (z * payout) list **)

let d_payouts s =
  map_to_list (gmap_to_list Coq_Z.eq_dec z_countable) s.payouts

(** val d_sessions : state -> (z * session) list **)

let d_sessions s =
  map_to_list (gmap_to_list Coq_Z.eq_dec z_countable) s.sessions

(** val d_swaps : state -> (n list * swap) list **)

let d_swaps s =
  map_to_list
    (gmap_to_list (list_eq_dec0 n_eq_dec)
      (list_countable n_eq_dec n_countable)) s.swaps

(** val d_inflations : state -> (time * inflation) list **)

let d_inflations s =
  map_to_list (gmap_to_list Coq_Z.eq_dec z_countable) s.inflations

(** val d_node_q : state -> (time * addr) list **)

let d_node_q s =
  elements0
    (gset_elements (prod_eq_dec Coq_Z.eq_dec (list_eq_dec0 n_eq_dec))
      (prod_countable Coq_Z.eq_dec z_countable (list_eq_dec0 n_eq_dec)
        (list_countable n_eq_dec n_countable))) s.node_q

(** val d_node_plan : state -> (z * addr) list **)

let d_node_plan s =
  elements0
    (gset_elements (prod_eq_dec Coq_Z.eq_dec (list_eq_dec0 n_eq_dec))
      (prod_countable Coq_Z.eq_dec z_countable (list_eq_dec0 n_eq_dec)
        (list_countable n_eq_dec n_countable))) s.node_plan

(** val d_plan_prov : state -> (addr * z) list **)

let d_plan_prov s =
  elements0
    (gset_elements (prod_eq_dec (list_eq_dec0 n_eq_dec) Coq_Z.eq_dec)
      (prod_countable (list_eq_dec0 n_eq_dec)
        (list_countable n_eq_dec n_countable) Coq_Z.eq_dec z_countable))
    s.plan_prov

(** val d_sub_q : state -> (time * z) list **)

let d_sub_q s =
  elements0
    (gset_elements (prod_eq_dec Coq_Z.eq_dec Coq_Z.eq_dec)
      (prod_countable Coq_Z.eq_dec z_countable Coq_Z.eq_dec z_countable))
    s.sub_q

(** val d_sub_acc : state -> (addr * z) list **)

let d_sub_acc s =
  elements0
    (gset_elements (prod_eq_dec (list_eq_dec0 n_eq_dec) Coq_Z.eq_dec)
      (prod_countable (list_eq_dec0 n_eq_dec)
        (list_countable n_eq_dec n_countable) Coq_Z.eq_dec z_countable))
    s.sub_acc

(** val d_sub_node : state -> (addr * z) list **)

let d_sub_node s =
  elements0
    (gset_elements (prod_eq_dec (list_eq_dec0 n_eq_dec) Coq_Z.eq_dec)
      (prod_countable (list_eq_dec0 n_eq_dec)
        (list_countable n_eq_dec n_countable) Coq_Z.eq_dec z_countable))
    s.sub_node

(** val d_sub_plan : state -> (z * z) list **)

let d_sub_plan s =
  elements0
    (gset_elements (prod_eq_dec Coq_Z.eq_dec Coq_Z.eq_dec)
      (prod_countable Coq_Z.eq_dec z_countable Coq_Z.eq_dec z_countable))
    s.sub_plan

(** val d_pay_q : state -> (time * z) list **)

let d_pay_q s =
  elements0
    (gset_elements (prod_eq_dec Coq_Z.eq_dec Coq_Z.eq_dec)
      (prod_countable Coq_Z.eq_dec z_countable Coq_Z.eq_dec z_countable))
    s.pay_q

(** val d_pay_acc : state -> (addr * z) list **)

let d_pay_acc s =
  elements0
    (gset_elements (prod_eq_dec (list_eq_dec0 n_eq_dec) Coq_Z.eq_dec)
      (prod_countable (list_eq_dec0 n_eq_dec)
        (list_countable n_eq_dec n_countable) Coq_Z.eq_dec z_countable))
    s.pay_acc

(** val d_pay_node : state -> (addr * z) list **)

let d_pay_node s =
  elements0
    (gset_elements (prod_eq_dec (list_eq_dec0 n_eq_dec) Coq_Z.eq_dec)
      (prod_countable (list_eq_dec0 n_eq_dec)
        (list_countable n_eq_dec n_countable) Coq_Z.eq_dec z_countable))
    s.pay_node

(** val d_pay_acc_node : state -> ((addr * addr) * z) list **)

let d_pay_acc_node s =
  elements0
    (gset_elements
      (prod_eq_dec
        (prod_eq_dec (list_eq_dec0 n_eq_dec) (list_eq_dec0 n_eq_dec))
        Coq_Z.eq_dec)
      (prod_countable
        (prod_eq_dec (list_eq_dec0 n_eq_dec) (list_eq_dec0 n_eq_dec))
        (prod_countable (list_eq_dec0 n_eq_dec)
          (list_countable n_eq_dec n_countable) (list_eq_dec0 n_eq_dec)
          (list_countable n_eq_dec n_countable)) Coq_Z.eq_dec z_countable))
    s.pay_acc_node

(** val d_sess_q : state -> (time * z) list **)

let d_sess_q s =
  elements0
    (gset_elements (prod_eq_dec Coq_Z.eq_dec Coq_Z.eq_dec)
      (prod_countable Coq_Z.eq_dec z_countable Coq_Z.eq_dec z_countable))
    s.sess_q

(** val d_sess_acc : state -> (addr * z) list **)

let d_sess_acc s =
  elements0
    (gset_elements (prod_eq_dec (list_eq_dec0 n_eq_dec) Coq_Z.eq_dec)
      (prod_countable (list_eq_dec0 n_eq_dec)
        (list_countable n_eq_dec n_countable) Coq_Z.eq_dec z_countable))
    s.sess_acc

(** val d_sess_node : state -> (addr * z) list **)

let d_sess_node s =
  elements0
    (gset_elements (prod_eq_dec (list_eq_dec0 n_eq_dec) Coq_Z.eq_dec)
      (prod_countable (list_eq_dec0 n_eq_dec)
        (list_countable n_eq_dec n_countable) Coq_Z.eq_dec z_countable))
    s.sess_node

(** val d_sess_sub : state -> (z * z) list **)

let d_sess_sub s =
  elements0
    (gset_elements (prod_eq_dec Coq_Z.eq_dec Coq_Z.eq_dec)
      (prod_countable Coq_Z.eq_dec z_countable Coq_Z.eq_dec z_countable))
    s.sess_sub

(** val d_sess_alloc : state -> ((z * addr) * z) list **)

let d_sess_alloc s =
  elements0
    (gset_elements
      (prod_eq_dec (prod_eq_dec Coq_Z.eq_dec (list_eq_dec0 n_eq_dec))
        Coq_Z.eq_dec)
      (prod_countable (prod_eq_dec Coq_Z.eq_dec (list_eq_dec0 n_eq_dec))
        (prod_countable Coq_Z.eq_dec z_countable (list_eq_dec0 n_eq_dec)
          (list_countable n_eq_dec n_countable)) Coq_Z.eq_dec z_countable))
    s.sess_alloc

(** val d_coins : (denom, z) gmap -> coin list **)

let d_coins =
  coins_list

type gplan = { gp_plan : plan; gp_nodes : addr list }

type gsub = { gs_sub : subscription; gs_allocs : allocation list }

type gen_doc = { gd_deposits : (addr * (denom, z) gmap) list;
                 gd_providers : provider list; gd_nodes : node list;
                 gd_plans : gplan list; gd_subs : gsub list;
                 gd_sessions : session list; gd_swaps : swap list;
                 gd_inflations : inflation list; gd_params : params }

(** val by_addr : (addr, 'a1) gmap -> (addr * 'a1) list **)

let by_addr m =
  sort_by (fun x y -> addr_cmp (fst x) (fst y))
    (map_to_list
      (gmap_to_list (list_eq_dec0 n_eq_dec)
        (list_countable n_eq_dec n_countable)) m)

(** val by_z : (z, 'a1) gmap -> (z * 'a1) list **)

let by_z m =
  sort_by (fun x y -> Z.compare (fst x) (fst y))
    (map_to_list (gmap_to_list Coq_Z.eq_dec z_countable) m)

(** val by_bytes : (n list, 'a1) gmap -> (n list * 'a1) list **)

let by_bytes m =
  sort_by (fun x y -> bytes_cmp (fst x) (fst y))
    (map_to_list
      (gmap_to_list (list_eq_dec0 n_eq_dec)
        (list_countable n_eq_dec n_countable)) m)

(** val exp_deposits : state -> (addr * (denom, z) gmap) list **)

let exp_deposits s =
  by_addr s.deposits

(** val exp_providers : state -> provider list **)

let exp_providers s =
  app (map snd (by_addr s.prov_act)) (map snd (by_addr s.prov_inact))

(** val exp_nodes : state -> node list **)

let exp_nodes s =
  app (map snd (by_addr s.node_act)) (map snd (by_addr s.node_inact))

(** val all_plans : state -> plan list **)

let all_plans s =
  app (map snd (by_z s.plan_act)) (map snd (by_z s.plan_inact))

(** val links_of : state -> z -> addr list **)

let links_of s id0 =
  sort_by addr_cmp
    (mbind (Obj.magic (fun _ _ -> list_bind)) (fun e ->
      if bool_decide (decide_rel Coq_Z.eq_dec (fst e) id0)
      then (snd e) :: []
      else [])
      (elements0
        (Obj.magic gset_elements
          (prod_eq_dec Coq_Z.eq_dec (list_eq_dec0 n_eq_dec))
          (prod_countable Coq_Z.eq_dec z_countable (list_eq_dec0 n_eq_dec)
            (list_countable n_eq_dec n_countable))) s.node_plan))

(** val link_addrs : state -> addr list -> addr list res **)

let rec link_addrs s = function
| [] -> Ok []
| a :: l' ->
  (match get_node s a with
   | Some n0 -> rbind (link_addrs s l') (fun r -> Ok (n0.nd_addr :: r))
   | None -> Panic)

(** val exp_plan_items : state -> plan list -> gplan list res **)

let rec exp_plan_items s = function
| [] -> Ok []
| p :: l' ->
  rbind (link_addrs s (links_of s p.pl_id)) (fun ns ->
    rbind (exp_plan_items s l') (fun r -> Ok ({ gp_plan = p; gp_nodes =
      ns } :: r)))

(** val exp_plans : state -> gplan list res **)

let exp_plans s =
  exp_plan_items s (all_plans s)

(** val exp_subs : state -> gsub list **)

let exp_subs _ =
  []

(** val exp_sessions : state -> session list **)

let exp_sessions s =
  map snd (by_z s.sessions)

(** val exp_swaps : state -> swap list **)

let exp_swaps s =
  map snd (by_bytes s.swaps)

(** val exp_inflations : state -> inflation list **)

let exp_inflations s =
  map snd (by_z s.inflations)

(** val export : state -> gen_doc res **)

let export s =
  rbind (exp_plans s) (fun plans -> Ok { gd_deposits = (exp_deposits s);
    gd_providers = (exp_providers s); gd_nodes = (exp_nodes s); gd_plans =
    plans; gd_subs = (exp_subs s); gd_sessions = (exp_sessions s); gd_swaps =
    (exp_swaps s); gd_inflations = (exp_inflations s); gd_params = s.pars })

(** val addr_ok : addr -> bool **)

let addr_ok a =
  (&&) (Z.ltb Z0 (Z.of_nat (length a)))
    (Z.leb (Z.of_nat (length a)) (Zpos (XI (XI (XI (XI (XI (XI (XI XH)))))))))

(** val coins_ok : (denom, z) gmap -> bool **)

let coins_ok c =
  forallb (fun pat ->
    let (d, a) = pat in (&&) (Z.ltb Z0 a) (negb (N.eqb d N0))) (coins_list c)

(** val coins_nonempty_ok : (denom, z) gmap -> bool **)

let coins_nonempty_ok c =
  (&&)
    (negb
      (bool_decide
        (decide_rel (gmap_eq_eq n_eq_dec n_countable Coq_Z.eq_dec) c
          (empty0 (gmap_empty n_eq_dec n_countable))))) (coins_ok c)

(** val slen0 : string -> z **)

let slen0 x =
  Z.of_nat (length0 x)

(** val status_ai : status -> bool **)

let status_ai = function
| SUnspec -> false
| SPending -> false
| _ -> true

(** val nodupb : ('a1, 'a1) relDecision -> 'a1 list -> bool **)

let nodupb eqDecision0 l =
  bool_decide (noDup_dec eqDecision0 l)

(** val share_ok0 : z -> bool **)

let share_ok0 z0 =
  (&&) (Z.leb Z0 z0) (Z.leb z0 p18)

(** val validate_deposit : (addr * (denom, z) gmap) -> bool **)

let validate_deposit d =
  (&&) (addr_ok (fst d)) (coins_nonempty_ok (snd d))

(** val validate_provider : provider -> bool **)

let validate_provider p =
  (&&)
    ((&&)
      ((&&)
        ((&&)
          ((&&) ((&&) (addr_ok p.pv_addr) (Z.ltb Z0 (slen0 p.pv_name)))
            (Z.leb (slen0 p.pv_name) (Zpos (XO (XO (XO (XO (XO (XO XH)))))))))
          (Z.leb (slen0 p.pv_identity) (Zpos (XO (XO (XO (XO (XO (XO
            XH)))))))))
        (Z.leb (slen0 p.pv_website) (Zpos (XO (XO (XO (XO (XO (XO XH)))))))))
      (Z.leb (slen0 p.pv_description) (Zpos (XO (XO (XO (XO (XO (XO (XO (XO
        XH))))))))))) (status_ai p.pv_status)

(** val validate_node : node -> bool **)

let validate_node n0 =
  (&&)
    ((&&)
      ((&&)
        ((&&)
          ((&&)
            ((&&)
              ((&&) (addr_ok n0.nd_addr) (coins_nonempty_ok n0.nd_gb_prices))
              (coins_nonempty_ok n0.nd_hr_prices))
            (Z.ltb Z0 (slen0 n0.nd_url)))
          (Z.leb (slen0 n0.nd_url) (Zpos (XO (XO (XO (XO (XO (XO XH)))))))))
        (if Z.eqb n0.nd_inactive_at tzero
         then bool_decide (decide_rel status_eq_dec n0.nd_status SInactive)
         else bool_decide (decide_rel status_eq_dec n0.nd_status SActive)))
      (status_ai n0.nd_status)) (negb (Z.eqb n0.nd_status_at tzero))

(** val validate_plan : plan -> bool **)

let validate_plan p =
  (&&)
    ((&&)
      ((&&)
        ((&&)
          ((&&) ((&&) (negb (Z.eqb p.pl_id Z0)) (addr_ok p.pl_prov))
            (Z.ltb Z0 p.pl_duration)) (Z.ltb Z0 p.pl_gb))
        (coins_nonempty_ok p.pl_prices)) (status_ai p.pl_status))
    (negb (Z.eqb p.pl_status_at tzero))

(** val validate_session : session -> bool **)

let validate_session x =
  (&&)
    ((&&)
      ((&&)
        ((&&)
          ((&&)
            ((&&)
              ((&&)
                ((&&)
                  ((&&) (negb (Z.eqb x.ss_id Z0)) (negb (Z.eqb x.ss_sub Z0)))
                  (addr_ok x.ss_node)) (addr_ok x.ss_addr))
              (Z.leb Z0 x.ss_up)) (Z.leb Z0 x.ss_down))
          (Z.leb Z0 x.ss_duration)) (negb (Z.eqb x.ss_inactive_at tzero)))
      (match x.ss_status with
       | SUnspec -> false
       | SInactive -> false
       | _ -> true)) (negb (Z.eqb x.ss_status_at tzero))

(** val validate_swap : swap -> bool **)

let validate_swap w =
  (&&)
    ((&&)
      ((&&)
        (Z.eqb (Z.of_nat (length w.sw_hash)) (Zpos (XO (XO (XO (XO (XO
          XH))))))) (ta_valid RAcc w.sw_receiver))
      (Z.ltb Z0 (snd w.sw_amount))) (negb (N.eqb (fst w.sw_amount) N0))

(** val validate_inflation : inflation -> bool **)

let validate_inflation i =
  (&&)
    ((&&)
      ((&&) ((&&) (share_ok0 i.inf_max) (share_ok0 i.inf_min))
        (Z.leb i.inf_min i.inf_max)) (share_ok0 i.inf_rate))
    (negb (Z.eqb i.inf_ts tzero))

(** val validate_allocation : allocation -> bool **)

let validate_allocation a =
  (&&) ((&&) (addr_ok a.al_addr) (Z.leb Z0 a.al_granted)) (Z.leb Z0 a.al_used)

(** val deposit_coin_ok : coin -> bool **)

let deposit_coin_ok c =
  (&&) (Z.leb Z0 (snd c)) (negb (N.eqb (fst c) N0))

(** val prov_params_ok : params -> bool **)

let prov_params_ok p =
  (&&) (deposit_coin_ok p.p_prov_deposit) (share_ok0 p.p_prov_share)

(** val node_params_ok : params -> bool **)

let node_params_ok p =
  (&&)
    ((&&)
      ((&&)
        ((&&)
          ((&&)
            ((&&)
              ((&&)
                ((&&)
                  ((&&)
                    ((&&) (deposit_coin_ok p.p_node_deposit)
                      (Z.ltb Z0 p.p_node_active)) (coins_ok p.p_max_gb))
                  (coins_ok p.p_min_gb)) (coins_ok p.p_max_hr))
              (coins_ok p.p_min_hr)) (Z.ltb Z0 p.p_max_sub_gb))
          (Z.ltb Z0 p.p_min_sub_gb)) (Z.ltb Z0 p.p_max_sub_hr))
      (Z.ltb Z0 p.p_min_sub_hr)) (share_ok0 p.p_node_share)

(** val sub_params_ok : params -> bool **)

let sub_params_ok p =
  Z.ltb Z0 p.p_sub_delay

(** val sess_params_ok : params -> bool **)

let sess_params_ok p =
  Z.ltb Z0 p.p_sess_delay

(** val swap_params_ok : params -> bool **)

let swap_params_ok p =
  (&&) (negb (N.eqb p.p_swap_denom N0)) (ta_valid RAcc p.p_swap_approver)

type verdict = { v_deposit : bool; v_provider : bool; v_node : bool;
                 v_plan : bool; v_subscription : bool; v_session : bool;
                 v_swap : bool; v_mint : bool }

(** val validate_deposits : (addr * (denom, z) gmap) list -> bool **)

let validate_deposits l =
  (&&)
    (nodupb (Obj.magic list_eq_dec0 n_eq_dec)
      (fmap (Obj.magic (fun _ _ -> list_fmap)) fst l))
    (forallb validate_deposit l)

(** val validate_providers : params -> provider list -> bool **)

let validate_providers p l =
  (&&)
    ((&&) (prov_params_ok p)
      (nodupb (list_eq_dec0 n_eq_dec) (map (fun p0 -> p0.pv_addr) l)))
    (forallb validate_provider l)

(** val validate_nodes : params -> node list -> bool **)

let validate_nodes p l =
  (&&)
    ((&&) (node_params_ok p)
      (nodupb (list_eq_dec0 n_eq_dec) (map (fun n0 -> n0.nd_addr) l)))
    (forallb validate_node l)

(** val validate_plans : gplan list -> bool **)

let validate_plans l =
  (&&)
    ((&&) (nodupb Coq_Z.eq_dec (map (fun i -> i.gp_plan.pl_id) l))
      (forallb (fun i -> nodupb (list_eq_dec0 n_eq_dec) i.gp_nodes) l))
    (forallb (fun i -> validate_plan i.gp_plan) l)

(** val validate_subs : params -> gsub list -> bool **)

let validate_subs p l =
  (&&)
    ((&&)
      ((&&) (sub_params_ok p)
        (nodupb Coq_Z.eq_dec (map (fun i -> i.gs_sub.sb_id) l)))
      (forallb (fun i ->
        nodupb (list_eq_dec0 n_eq_dec) (map (fun a -> a.al_addr) i.gs_allocs))
        l)) (forallb (fun i -> forallb validate_allocation i.gs_allocs) l)

(** val validate_sessions : params -> session list -> bool **)

let validate_sessions p l =
  (&&)
    ((&&) (sess_params_ok p) (nodupb Coq_Z.eq_dec (map (fun s -> s.ss_id) l)))
    (forallb validate_session l)

(** val validate_swaps : params -> swap list -> bool **)

let validate_swaps p l =
  (&&)
    ((&&) (swap_params_ok p)
      (nodupb (list_eq_dec0 n_eq_dec) (map (fun s -> s.sw_hash) l)))
    (forallb validate_swap l)

(** val validate_inflations : inflation list -> bool **)

let validate_inflations l =
  (&&) (nodupb Coq_Z.eq_dec (map (fun i -> i.inf_ts) l))
    (forallb validate_inflation l)

(** val validate : gen_doc -> verdict **)

let validate d =
  { v_deposit = (validate_deposits d.gd_deposits); v_provider =
    (validate_providers d.gd_params d.gd_providers); v_node =
    (validate_nodes d.gd_params d.gd_nodes); v_plan =
    (validate_plans d.gd_plans); v_subscription =
    (validate_subs d.gd_params d.gd_subs); v_session =
    (validate_sessions d.gd_params d.gd_sessions); v_swap =
    (validate_swaps d.gd_params d.gd_swaps); v_mint =
    (validate_inflations d.gd_inflations) }

(** val verdict_ok : verdict -> bool **)

let verdict_ok v =
  (&&)
    ((&&)
      ((&&)
        ((&&) ((&&) ((&&) ((&&) v.v_deposit v.v_provider) v.v_node) v.v_plan)
          v.v_subscription) v.v_session) v.v_swap) v.v_mint

(** val imp_deposit : state -> (addr * (denom, z) gmap) -> state res **)

let imp_deposit s d =
  Ok
    (set (fun s0 -> s0.deposits) (fun f ->
      let g = fun r -> f r.deposits in
      (fun x -> { cfg = x.cfg; bank = x.bank; supply = x.supply; deposits =
      (g x); prov_act = x.prov_act; prov_inact = x.prov_inact; node_act =
      x.node_act; node_inact = x.node_inact; node_q = x.node_q; node_plan =
      x.node_plan; plan_count = x.plan_count; plan_act = x.plan_act;
      plan_inact = x.plan_inact; plan_prov = x.plan_prov; sub_count =
      x.sub_count; subs = x.subs; sub_q = x.sub_q; sub_acc = x.sub_acc;
      sub_node = x.sub_node; sub_plan = x.sub_plan; allocs = x.allocs;
      payouts = x.payouts; pay_q = x.pay_q; pay_acc = x.pay_acc; pay_node =
      x.pay_node; pay_acc_node = x.pay_acc_node; sess_count = x.sess_count;
      sessions = x.sessions; sess_q = x.sess_q; sess_acc = x.sess_acc;
      sess_node = x.sess_node; sess_sub = x.sess_sub; sess_alloc =
      x.sess_alloc; pars = x.pars; modified = x.modified; swaps = x.swaps;
      inflations = x.inflations; mint_max = x.mint_max; mint_min =
      x.mint_min; mint_rate = x.mint_rate; mint_inflation = x.mint_inflation;
      now = x.now; events = x.events })) (fun m ->
      insert0
        (map_insert
          (gmap_partial_alter (list_eq_dec0 n_eq_dec)
            (list_countable n_eq_dec n_countable))) (fst d) (snd d) m) s)

(** val imp_node : state -> node -> state res **)

let imp_node s n0 =
  rbind (set_node s n0) (fun s1 ->
    if bool_decide (decide_rel status_eq_dec n0.nd_status SActive)
    then Ok
           (set (fun s0 -> s0.node_q) (fun f ->
             let g = fun r -> f r.node_q in
             (fun x -> { cfg = x.cfg; bank = x.bank; supply = x.supply;
             deposits = x.deposits; prov_act = x.prov_act; prov_inact =
             x.prov_inact; node_act = x.node_act; node_inact = x.node_inact;
             node_q = (g x); node_plan = x.node_plan; plan_count =
             x.plan_count; plan_act = x.plan_act; plan_inact = x.plan_inact;
             plan_prov = x.plan_prov; sub_count = x.sub_count; subs = x.subs;
             sub_q = x.sub_q; sub_acc = x.sub_acc; sub_node = x.sub_node;
             sub_plan = x.sub_plan; allocs = x.allocs; payouts = x.payouts;
             pay_q = x.pay_q; pay_acc = x.pay_acc; pay_node = x.pay_node;
             pay_acc_node = x.pay_acc_node; sess_count = x.sess_count;
             sessions = x.sessions; sess_q = x.sess_q; sess_acc = x.sess_acc;
             sess_node = x.sess_node; sess_sub = x.sess_sub; sess_alloc =
             x.sess_alloc; pars = x.pars; modified = x.modified; swaps =
             x.swaps; inflations = x.inflations; mint_max = x.mint_max;
             mint_min = x.mint_min; mint_rate = x.mint_rate; mint_inflation =
             x.mint_inflation; now = x.now; events = x.events })) (fun q ->
             union0
               (gset_union (prod_eq_dec Coq_Z.eq_dec (list_eq_dec0 n_eq_dec))
                 (prod_countable Coq_Z.eq_dec z_countable
                   (list_eq_dec0 n_eq_dec)
                   (list_countable n_eq_dec n_countable))) q
               (singleton0
                 (gset_singleton
                   (prod_eq_dec Coq_Z.eq_dec (list_eq_dec0 n_eq_dec))
                   (prod_countable Coq_Z.eq_dec z_countable
                     (list_eq_dec0 n_eq_dec)
                     (list_countable n_eq_dec n_countable)))
                 (n0.nd_inactive_at, n0.nd_addr))) s1)
    else Ok s1)

(** val imp_plan_link : z -> state -> addr -> state res **)

let imp_plan_link id0 s a =
  if addr_ok a
  then Ok
         (set (fun s0 -> s0.node_plan) (fun f ->
           let g = fun r -> f r.node_plan in
           (fun x -> { cfg = x.cfg; bank = x.bank; supply = x.supply;
           deposits = x.deposits; prov_act = x.prov_act; prov_inact =
           x.prov_inact; node_act = x.node_act; node_inact = x.node_inact;
           node_q = x.node_q; node_plan = (g x); plan_count = x.plan_count;
           plan_act = x.plan_act; plan_inact = x.plan_inact; plan_prov =
           x.plan_prov; sub_count = x.sub_count; subs = x.subs; sub_q =
           x.sub_q; sub_acc = x.sub_acc; sub_node = x.sub_node; sub_plan =
           x.sub_plan; allocs = x.allocs; payouts = x.payouts; pay_q =
           x.pay_q; pay_acc = x.pay_acc; pay_node = x.pay_node;
           pay_acc_node = x.pay_acc_node; sess_count = x.sess_count;
           sessions = x.sessions; sess_q = x.sess_q; sess_acc = x.sess_acc;
           sess_node = x.sess_node; sess_sub = x.sess_sub; sess_alloc =
           x.sess_alloc; pars = x.pars; modified = x.modified; swaps =
           x.swaps; inflations = x.inflations; mint_max = x.mint_max;
           mint_min = x.mint_min; mint_rate = x.mint_rate; mint_inflation =
           x.mint_inflation; now = x.now; events = x.events })) (fun x ->
           union0
             (gset_union (prod_eq_dec Coq_Z.eq_dec (list_eq_dec0 n_eq_dec))
               (prod_countable Coq_Z.eq_dec z_countable
                 (list_eq_dec0 n_eq_dec)
                 (list_countable n_eq_dec n_countable))) x
             (singleton0
               (gset_singleton
                 (prod_eq_dec Coq_Z.eq_dec (list_eq_dec0 n_eq_dec))
                 (prod_countable Coq_Z.eq_dec z_countable
                   (list_eq_dec0 n_eq_dec)
                   (list_countable n_eq_dec n_countable))) (id0, a))) s)
  else Panic

(** val imp_plan : state -> gplan -> state res **)

let imp_plan s i =
  let p = i.gp_plan in
  rbind (set_plan s p) (fun s1 ->
    let s2 =
      set (fun s0 -> s0.plan_prov) (fun f ->
        let g = fun r -> f r.plan_prov in
        (fun x -> { cfg = x.cfg; bank = x.bank; supply = x.supply; deposits =
        x.deposits; prov_act = x.prov_act; prov_inact = x.prov_inact;
        node_act = x.node_act; node_inact = x.node_inact; node_q = x.node_q;
        node_plan = x.node_plan; plan_count = x.plan_count; plan_act =
        x.plan_act; plan_inact = x.plan_inact; plan_prov = (g x); sub_count =
        x.sub_count; subs = x.subs; sub_q = x.sub_q; sub_acc = x.sub_acc;
        sub_node = x.sub_node; sub_plan = x.sub_plan; allocs = x.allocs;
        payouts = x.payouts; pay_q = x.pay_q; pay_acc = x.pay_acc; pay_node =
        x.pay_node; pay_acc_node = x.pay_acc_node; sess_count = x.sess_count;
        sessions = x.sessions; sess_q = x.sess_q; sess_acc = x.sess_acc;
        sess_node = x.sess_node; sess_sub = x.sess_sub; sess_alloc =
        x.sess_alloc; pars = x.pars; modified = x.modified; swaps = x.swaps;
        inflations = x.inflations; mint_max = x.mint_max; mint_min =
        x.mint_min; mint_rate = x.mint_rate; mint_inflation =
        x.mint_inflation; now = x.now; events = x.events })) (fun x ->
        union0
          (gset_union (prod_eq_dec (list_eq_dec0 n_eq_dec) Coq_Z.eq_dec)
            (prod_countable (list_eq_dec0 n_eq_dec)
              (list_countable n_eq_dec n_countable) Coq_Z.eq_dec z_countable))
          x
          (singleton0
            (gset_singleton
              (prod_eq_dec (list_eq_dec0 n_eq_dec) Coq_Z.eq_dec)
              (prod_countable (list_eq_dec0 n_eq_dec)
                (list_countable n_eq_dec n_countable) Coq_Z.eq_dec
                z_countable)) (p.pl_prov, p.pl_id))) s1
    in
    rfold (imp_plan_link p.pl_id) i.gp_nodes s2)

(** val max_id : ('a1 -> z) -> 'a1 list -> z **)

let max_id f l =
  fold_left (fun c x -> if Z.ltb c (f x) then f x else c) l Z0

(** val imp_provider : state -> provider -> state res **)

let imp_provider =
  set_provider

(** val imp_session : state -> session -> state res **)

let imp_session s x =
  Ok
    (set (fun s0 -> s0.sess_q) (fun f ->
      let g = fun r -> f r.sess_q in
      (fun x0 -> { cfg = x0.cfg; bank = x0.bank; supply = x0.supply;
      deposits = x0.deposits; prov_act = x0.prov_act; prov_inact =
      x0.prov_inact; node_act = x0.node_act; node_inact = x0.node_inact;
      node_q = x0.node_q; node_plan = x0.node_plan; plan_count =
      x0.plan_count; plan_act = x0.plan_act; plan_inact = x0.plan_inact;
      plan_prov = x0.plan_prov; sub_count = x0.sub_count; subs = x0.subs;
      sub_q = x0.sub_q; sub_acc = x0.sub_acc; sub_node = x0.sub_node;
      sub_plan = x0.sub_plan; allocs = x0.allocs; payouts = x0.payouts;
      pay_q = x0.pay_q; pay_acc = x0.pay_acc; pay_node = x0.pay_node;
      pay_acc_node = x0.pay_acc_node; sess_count = x0.sess_count; sessions =
      x0.sessions; sess_q = (g x0); sess_acc = x0.sess_acc; sess_node =
      x0.sess_node; sess_sub = x0.sess_sub; sess_alloc = x0.sess_alloc;
      pars = x0.pars; modified = x0.modified; swaps = x0.swaps; inflations =
      x0.inflations; mint_max = x0.mint_max; mint_min = x0.mint_min;
      mint_rate = x0.mint_rate; mint_inflation = x0.mint_inflation; now =
      x0.now; events = x0.events })) (fun i ->
      union0
        (gset_union (prod_eq_dec Coq_Z.eq_dec Coq_Z.eq_dec)
          (prod_countable Coq_Z.eq_dec z_countable Coq_Z.eq_dec z_countable))
        i
        (singleton0
          (gset_singleton (prod_eq_dec Coq_Z.eq_dec Coq_Z.eq_dec)
            (prod_countable Coq_Z.eq_dec z_countable Coq_Z.eq_dec z_countable))
          (x.ss_inactive_at, x.ss_id)))
      (set (fun s0 -> s0.sess_alloc) (fun f ->
        let g = fun r -> f r.sess_alloc in
        (fun x0 -> { cfg = x0.cfg; bank = x0.bank; supply = x0.supply;
        deposits = x0.deposits; prov_act = x0.prov_act; prov_inact =
        x0.prov_inact; node_act = x0.node_act; node_inact = x0.node_inact;
        node_q = x0.node_q; node_plan = x0.node_plan; plan_count =
        x0.plan_count; plan_act = x0.plan_act; plan_inact = x0.plan_inact;
        plan_prov = x0.plan_prov; sub_count = x0.sub_count; subs = x0.subs;
        sub_q = x0.sub_q; sub_acc = x0.sub_acc; sub_node = x0.sub_node;
        sub_plan = x0.sub_plan; allocs = x0.allocs; payouts = x0.payouts;
        pay_q = x0.pay_q; pay_acc = x0.pay_acc; pay_node = x0.pay_node;
        pay_acc_node = x0.pay_acc_node; sess_count = x0.sess_count;
        sessions = x0.sessions; sess_q = x0.sess_q; sess_acc = x0.sess_acc;
        sess_node = x0.sess_node; sess_sub = x0.sess_sub; sess_alloc =
        (g x0); pars = x0.pars; modified = x0.modified; swaps = x0.swaps;
        inflations = x0.inflations; mint_max = x0.mint_max; mint_min =
        x0.mint_min; mint_rate = x0.mint_rate; mint_inflation =
        x0.mint_inflation; now = x0.now; events = x0.events })) (fun i ->
        union0
          (gset_union
            (prod_eq_dec (prod_eq_dec Coq_Z.eq_dec (list_eq_dec0 n_eq_dec))
              Coq_Z.eq_dec)
            (prod_countable
              (prod_eq_dec Coq_Z.eq_dec (list_eq_dec0 n_eq_dec))
              (prod_countable Coq_Z.eq_dec z_countable
                (list_eq_dec0 n_eq_dec) (list_countable n_eq_dec n_countable))
              Coq_Z.eq_dec z_countable)) i
          (singleton0
            (gset_singleton
              (prod_eq_dec (prod_eq_dec Coq_Z.eq_dec (list_eq_dec0 n_eq_dec))
                Coq_Z.eq_dec)
              (prod_countable
                (prod_eq_dec Coq_Z.eq_dec (list_eq_dec0 n_eq_dec))
                (prod_countable Coq_Z.eq_dec z_countable
                  (list_eq_dec0 n_eq_dec)
                  (list_countable n_eq_dec n_countable)) Coq_Z.eq_dec
                z_countable)) ((x.ss_sub, x.ss_addr), x.ss_id)))
        (set (fun s0 -> s0.sess_sub) (fun f ->
          let g = fun r -> f r.sess_sub in
          (fun x0 -> { cfg = x0.cfg; bank = x0.bank; supply = x0.supply;
          deposits = x0.deposits; prov_act = x0.prov_act; prov_inact =
          x0.prov_inact; node_act = x0.node_act; node_inact = x0.node_inact;
          node_q = x0.node_q; node_plan = x0.node_plan; plan_count =
          x0.plan_count; plan_act = x0.plan_act; plan_inact = x0.plan_inact;
          plan_prov = x0.plan_prov; sub_count = x0.sub_count; subs = x0.subs;
          sub_q = x0.sub_q; sub_acc = x0.sub_acc; sub_node = x0.sub_node;
          sub_plan = x0.sub_plan; allocs = x0.allocs; payouts = x0.payouts;
          pay_q = x0.pay_q; pay_acc = x0.pay_acc; pay_node = x0.pay_node;
          pay_acc_node = x0.pay_acc_node; sess_count = x0.sess_count;
          sessions = x0.sessions; sess_q = x0.sess_q; sess_acc = x0.sess_acc;
          sess_node = x0.sess_node; sess_sub = (g x0); sess_alloc =
          x0.sess_alloc; pars = x0.pars; modified = x0.modified; swaps =
          x0.swaps; inflations = x0.inflations; mint_max = x0.mint_max;
          mint_min = x0.mint_min; mint_rate = x0.mint_rate; mint_inflation =
          x0.mint_inflation; now = x0.now; events = x0.events })) (fun i ->
          union0
            (gset_union (prod_eq_dec Coq_Z.eq_dec Coq_Z.eq_dec)
              (prod_countable Coq_Z.eq_dec z_countable Coq_Z.eq_dec
                z_countable)) i
            (singleton0
              (gset_singleton (prod_eq_dec Coq_Z.eq_dec Coq_Z.eq_dec)
                (prod_countable Coq_Z.eq_dec z_countable Coq_Z.eq_dec
                  z_countable)) (x.ss_sub, x.ss_id)))
          (set (fun s0 -> s0.sess_node) (fun f ->
            let g = fun r -> f r.sess_node in
            (fun x0 -> { cfg = x0.cfg; bank = x0.bank; supply = x0.supply;
            deposits = x0.deposits; prov_act = x0.prov_act; prov_inact =
            x0.prov_inact; node_act = x0.node_act; node_inact =
            x0.node_inact; node_q = x0.node_q; node_plan = x0.node_plan;
            plan_count = x0.plan_count; plan_act = x0.plan_act; plan_inact =
            x0.plan_inact; plan_prov = x0.plan_prov; sub_count =
            x0.sub_count; subs = x0.subs; sub_q = x0.sub_q; sub_acc =
            x0.sub_acc; sub_node = x0.sub_node; sub_plan = x0.sub_plan;
            allocs = x0.allocs; payouts = x0.payouts; pay_q = x0.pay_q;
            pay_acc = x0.pay_acc; pay_node = x0.pay_node; pay_acc_node =
            x0.pay_acc_node; sess_count = x0.sess_count; sessions =
            x0.sessions; sess_q = x0.sess_q; sess_acc = x0.sess_acc;
            sess_node = (g x0); sess_sub = x0.sess_sub; sess_alloc =
            x0.sess_alloc; pars = x0.pars; modified = x0.modified; swaps =
            x0.swaps; inflations = x0.inflations; mint_max = x0.mint_max;
            mint_min = x0.mint_min; mint_rate = x0.mint_rate;
            mint_inflation = x0.mint_inflation; now = x0.now; events =
            x0.events })) (fun i ->
            union0
              (gset_union (prod_eq_dec (list_eq_dec0 n_eq_dec) Coq_Z.eq_dec)
                (prod_countable (list_eq_dec0 n_eq_dec)
                  (list_countable n_eq_dec n_countable) Coq_Z.eq_dec
                  z_countable)) i
              (singleton0
                (gset_singleton
                  (prod_eq_dec (list_eq_dec0 n_eq_dec) Coq_Z.eq_dec)
                  (prod_countable (list_eq_dec0 n_eq_dec)
                    (list_countable n_eq_dec n_countable) Coq_Z.eq_dec
                    z_countable)) (x.ss_node, x.ss_id)))
            (set (fun s0 -> s0.sess_acc) (fun f ->
              let g = fun r -> f r.sess_acc in
              (fun x0 -> { cfg = x0.cfg; bank = x0.bank; supply = x0.supply;
              deposits = x0.deposits; prov_act = x0.prov_act; prov_inact =
              x0.prov_inact; node_act = x0.node_act; node_inact =
              x0.node_inact; node_q = x0.node_q; node_plan = x0.node_plan;
              plan_count = x0.plan_count; plan_act = x0.plan_act;
              plan_inact = x0.plan_inact; plan_prov = x0.plan_prov;
              sub_count = x0.sub_count; subs = x0.subs; sub_q = x0.sub_q;
              sub_acc = x0.sub_acc; sub_node = x0.sub_node; sub_plan =
              x0.sub_plan; allocs = x0.allocs; payouts = x0.payouts; pay_q =
              x0.pay_q; pay_acc = x0.pay_acc; pay_node = x0.pay_node;
              pay_acc_node = x0.pay_acc_node; sess_count = x0.sess_count;
              sessions = x0.sessions; sess_q = x0.sess_q; sess_acc = 
              (g x0); sess_node = x0.sess_node; sess_sub = x0.sess_sub;
              sess_alloc = x0.sess_alloc; pars = x0.pars; modified =
              x0.modified; swaps = x0.swaps; inflations = x0.inflations;
              mint_max = x0.mint_max; mint_min = x0.mint_min; mint_rate =
              x0.mint_rate; mint_inflation = x0.mint_inflation; now = x0.now;
              events = x0.events })) (fun i ->
              union0
                (gset_union
                  (prod_eq_dec (list_eq_dec0 n_eq_dec) Coq_Z.eq_dec)
                  (prod_countable (list_eq_dec0 n_eq_dec)
                    (list_countable n_eq_dec n_countable) Coq_Z.eq_dec
                    z_countable)) i
                (singleton0
                  (gset_singleton
                    (prod_eq_dec (list_eq_dec0 n_eq_dec) Coq_Z.eq_dec)
                    (prod_countable (list_eq_dec0 n_eq_dec)
                      (list_countable n_eq_dec n_countable) Coq_Z.eq_dec
                      z_countable)) (x.ss_addr, x.ss_id)))
              (set (fun s0 -> s0.sessions) (fun f ->
                let g = fun r -> f r.sessions in
                (fun x0 -> { cfg = x0.cfg; bank = x0.bank; supply =
                x0.supply; deposits = x0.deposits; prov_act = x0.prov_act;
                prov_inact = x0.prov_inact; node_act = x0.node_act;
                node_inact = x0.node_inact; node_q = x0.node_q; node_plan =
                x0.node_plan; plan_count = x0.plan_count; plan_act =
                x0.plan_act; plan_inact = x0.plan_inact; plan_prov =
                x0.plan_prov; sub_count = x0.sub_count; subs = x0.subs;
                sub_q = x0.sub_q; sub_acc = x0.sub_acc; sub_node =
                x0.sub_node; sub_plan = x0.sub_plan; allocs = x0.allocs;
                payouts = x0.payouts; pay_q = x0.pay_q; pay_acc = x0.pay_acc;
                pay_node = x0.pay_node; pay_acc_node = x0.pay_acc_node;
                sess_count = x0.sess_count; sessions = (g x0); sess_q =
                x0.sess_q; sess_acc = x0.sess_acc; sess_node = x0.sess_node;
                sess_sub = x0.sess_sub; sess_alloc = x0.sess_alloc; pars =
                x0.pars; modified = x0.modified; swaps = x0.swaps;
                inflations = x0.inflations; mint_max = x0.mint_max;
                mint_min = x0.mint_min; mint_rate = x0.mint_rate;
                mint_inflation = x0.mint_inflation; now = x0.now; events =
                x0.events })) (fun m ->
                insert0
                  (map_insert (gmap_partial_alter Coq_Z.eq_dec z_countable))
                  x.ss_id x m) s))))))

(** val swap_key_of : n list -> n list **)

let swap_key_of b =
  let n0 = length b in
  if Coq_Nat.ltb (S (S (S (S (S (S (S (S (S (S (S (S (S (S (S (S (S (S (S (S
       (S (S (S (S (S (S (S (S (S (S (S (S O))))))))))))))))))))))))))))))))
       n0
  then skipn
         (sub n0 (S (S (S (S (S (S (S (S (S (S (S (S (S (S (S (S (S (S (S (S
           (S (S (S (S (S (S (S (S (S (S (S (S
           O))))))))))))))))))))))))))))))))) b
  else app
         (replicate
           (sub (S (S (S (S (S (S (S (S (S (S (S (S (S (S (S (S (S (S (S (S
             (S (S (S (S (S (S (S (S (S (S (S (S
             O)))))))))))))))))))))))))))))))) n0) N0) b

(** val imp_swap : state -> swap -> state res **)

let imp_swap s w =
  Ok
    (set (fun s0 -> s0.swaps) (fun f ->
      let g = fun r -> f r.swaps in
      (fun x -> { cfg = x.cfg; bank = x.bank; supply = x.supply; deposits =
      x.deposits; prov_act = x.prov_act; prov_inact = x.prov_inact;
      node_act = x.node_act; node_inact = x.node_inact; node_q = x.node_q;
      node_plan = x.node_plan; plan_count = x.plan_count; plan_act =
      x.plan_act; plan_inact = x.plan_inact; plan_prov = x.plan_prov;
      sub_count = x.sub_count; subs = x.subs; sub_q = x.sub_q; sub_acc =
      x.sub_acc; sub_node = x.sub_node; sub_plan = x.sub_plan; allocs =
      x.allocs; payouts = x.payouts; pay_q = x.pay_q; pay_acc = x.pay_acc;
      pay_node = x.pay_node; pay_acc_node = x.pay_acc_node; sess_count =
      x.sess_count; sessions = x.sessions; sess_q = x.sess_q; sess_acc =
      x.sess_acc; sess_node = x.sess_node; sess_sub = x.sess_sub;
      sess_alloc = x.sess_alloc; pars = x.pars; modified = x.modified;
      swaps = (g x); inflations = x.inflations; mint_max = x.mint_max;
      mint_min = x.mint_min; mint_rate = x.mint_rate; mint_inflation =
      x.mint_inflation; now = x.now; events = x.events })) (fun m ->
      insert0
        (map_insert
          (gmap_partial_alter (list_eq_dec0 n_eq_dec)
            (list_countable n_eq_dec n_countable))) (swap_key_of w.sw_hash) w
        m) s)

(** val imp_inflation : state -> inflation -> state res **)

let imp_inflation s i =
  Ok
    (set (fun s0 -> s0.inflations) (fun f ->
      let g = fun r -> f r.inflations in
      (fun x -> { cfg = x.cfg; bank = x.bank; supply = x.supply; deposits =
      x.deposits; prov_act = x.prov_act; prov_inact = x.prov_inact;
      node_act = x.node_act; node_inact = x.node_inact; node_q = x.node_q;
      node_plan = x.node_plan; plan_count = x.plan_count; plan_act =
      x.plan_act; plan_inact = x.plan_inact; plan_prov = x.plan_prov;
      sub_count = x.sub_count; subs = x.subs; sub_q = x.sub_q; sub_acc =
      x.sub_acc; sub_node = x.sub_node; sub_plan = x.sub_plan; allocs =
      x.allocs; payouts = x.payouts; pay_q = x.pay_q; pay_acc = x.pay_acc;
      pay_node = x.pay_node; pay_acc_node = x.pay_acc_node; sess_count =
      x.sess_count; sessions = x.sessions; sess_q = x.sess_q; sess_acc =
      x.sess_acc; sess_node = x.sess_node; sess_sub = x.sess_sub;
      sess_alloc = x.sess_alloc; pars = x.pars; modified = x.modified;
      swaps = x.swaps; inflations = (g x); mint_max = x.mint_max; mint_min =
      x.mint_min; mint_rate = x.mint_rate; mint_inflation = x.mint_inflation;
      now = x.now; events = x.events })) (fun m ->
      insert0 (map_insert (gmap_partial_alter Coq_Z.eq_dec z_countable))
        i.inf_ts i m) s)

(** val set_prov_params : params -> state -> state **)

let set_prov_params q s =
  set (fun s0 -> s0.pars) (fun f ->
    let p = fun r -> f r.pars in
    (fun x -> { cfg = x.cfg; bank = x.bank; supply = x.supply; deposits =
    x.deposits; prov_act = x.prov_act; prov_inact = x.prov_inact; node_act =
    x.node_act; node_inact = x.node_inact; node_q = x.node_q; node_plan =
    x.node_plan; plan_count = x.plan_count; plan_act = x.plan_act;
    plan_inact = x.plan_inact; plan_prov = x.plan_prov; sub_count =
    x.sub_count; subs = x.subs; sub_q = x.sub_q; sub_acc = x.sub_acc;
    sub_node = x.sub_node; sub_plan = x.sub_plan; allocs = x.allocs;
    payouts = x.payouts; pay_q = x.pay_q; pay_acc = x.pay_acc; pay_node =
    x.pay_node; pay_acc_node = x.pay_acc_node; sess_count = x.sess_count;
    sessions = x.sessions; sess_q = x.sess_q; sess_acc = x.sess_acc;
    sess_node = x.sess_node; sess_sub = x.sess_sub; sess_alloc =
    x.sess_alloc; pars = (p x); modified = x.modified; swaps = x.swaps;
    inflations = x.inflations; mint_max = x.mint_max; mint_min = x.mint_min;
    mint_rate = x.mint_rate; mint_inflation = x.mint_inflation; now = x.now;
    events = x.events })) (fun p ->
    set (fun p0 -> p0.p_prov_share) (fun f ->
      let z0 = fun r -> f r.p_prov_share in
      (fun x -> { p_prov_deposit = x.p_prov_deposit; p_prov_share = (z0 x);
      p_node_deposit = x.p_node_deposit; p_node_active = x.p_node_active;
      p_max_gb = x.p_max_gb; p_min_gb = x.p_min_gb; p_max_hr = x.p_max_hr;
      p_min_hr = x.p_min_hr; p_max_sub_gb = x.p_max_sub_gb; p_min_sub_gb =
      x.p_min_sub_gb; p_max_sub_hr = x.p_max_sub_hr; p_min_sub_hr =
      x.p_min_sub_hr; p_node_share = x.p_node_share; p_sub_delay =
      x.p_sub_delay; p_sess_delay = x.p_sess_delay; p_sess_proof =
      x.p_sess_proof; p_swap_enabled = x.p_swap_enabled; p_swap_denom =
      x.p_swap_denom; p_swap_approver = x.p_swap_approver })) (fun _ ->
      q.p_prov_share)
      (set (fun p0 -> p0.p_prov_deposit) (fun f ->
        let c = fun r -> f r.p_prov_deposit in
        (fun x -> { p_prov_deposit = (c x); p_prov_share = x.p_prov_share;
        p_node_deposit = x.p_node_deposit; p_node_active = x.p_node_active;
        p_max_gb = x.p_max_gb; p_min_gb = x.p_min_gb; p_max_hr = x.p_max_hr;
        p_min_hr = x.p_min_hr; p_max_sub_gb = x.p_max_sub_gb; p_min_sub_gb =
        x.p_min_sub_gb; p_max_sub_hr = x.p_max_sub_hr; p_min_sub_hr =
        x.p_min_sub_hr; p_node_share = x.p_node_share; p_sub_delay =
        x.p_sub_delay; p_sess_delay = x.p_sess_delay; p_sess_proof =
        x.p_sess_proof; p_swap_enabled = x.p_swap_enabled; p_swap_denom =
        x.p_swap_denom; p_swap_approver = x.p_swap_approver })) (fun _ ->
        q.p_prov_deposit) p)) s

(** val set_node_params : params -> state -> state **)

let set_node_params q s =
  set (fun s0 -> s0.modified) (fun f ->
    let m = fun r -> f r.modified in
    (fun x -> { cfg = x.cfg; bank = x.bank; supply = x.supply; deposits =
    x.deposits; prov_act = x.prov_act; prov_inact = x.prov_inact; node_act =
    x.node_act; node_inact = x.node_inact; node_q = x.node_q; node_plan =
    x.node_plan; plan_count = x.plan_count; plan_act = x.plan_act;
    plan_inact = x.plan_inact; plan_prov = x.plan_prov; sub_count =
    x.sub_count; subs = x.subs; sub_q = x.sub_q; sub_acc = x.sub_acc;
    sub_node = x.sub_node; sub_plan = x.sub_plan; allocs = x.allocs;
    payouts = x.payouts; pay_q = x.pay_q; pay_acc = x.pay_acc; pay_node =
    x.pay_node; pay_acc_node = x.pay_acc_node; sess_count = x.sess_count;
    sessions = x.sessions; sess_q = x.sess_q; sess_acc = x.sess_acc;
    sess_node = x.sess_node; sess_sub = x.sess_sub; sess_alloc =
    x.sess_alloc; pars = x.pars; modified = (m x); swaps = x.swaps;
    inflations = x.inflations; mint_max = x.mint_max; mint_min = x.mint_min;
    mint_rate = x.mint_rate; mint_inflation = x.mint_inflation; now = x.now;
    events = x.events })) (fun _ -> all_flags)
    (set (fun s0 -> s0.pars) (fun f ->
      let p = fun r -> f r.pars in
      (fun x -> { cfg = x.cfg; bank = x.bank; supply = x.supply; deposits =
      x.deposits; prov_act = x.prov_act; prov_inact = x.prov_inact;
      node_act = x.node_act; node_inact = x.node_inact; node_q = x.node_q;
      node_plan = x.node_plan; plan_count = x.plan_count; plan_act =
      x.plan_act; plan_inact = x.plan_inact; plan_prov = x.plan_prov;
      sub_count = x.sub_count; subs = x.subs; sub_q = x.sub_q; sub_acc =
      x.sub_acc; sub_node = x.sub_node; sub_plan = x.sub_plan; allocs =
      x.allocs; payouts = x.payouts; pay_q = x.pay_q; pay_acc = x.pay_acc;
      pay_node = x.pay_node; pay_acc_node = x.pay_acc_node; sess_count =
      x.sess_count; sessions = x.sessions; sess_q = x.sess_q; sess_acc =
      x.sess_acc; sess_node = x.sess_node; sess_sub = x.sess_sub;
      sess_alloc = x.sess_alloc; pars = (p x); modified = x.modified; swaps =
      x.swaps; inflations = x.inflations; mint_max = x.mint_max; mint_min =
      x.mint_min; mint_rate = x.mint_rate; mint_inflation = x.mint_inflation;
      now = x.now; events = x.events })) (fun p ->
      set (fun p0 -> p0.p_node_share) (fun f ->
        let z0 = fun r -> f r.p_node_share in
        (fun x -> { p_prov_deposit = x.p_prov_deposit; p_prov_share =
        x.p_prov_share; p_node_deposit = x.p_node_deposit; p_node_active =
        x.p_node_active; p_max_gb = x.p_max_gb; p_min_gb = x.p_min_gb;
        p_max_hr = x.p_max_hr; p_min_hr = x.p_min_hr; p_max_sub_gb =
        x.p_max_sub_gb; p_min_sub_gb = x.p_min_sub_gb; p_max_sub_hr =
        x.p_max_sub_hr; p_min_sub_hr = x.p_min_sub_hr; p_node_share = 
        (z0 x); p_sub_delay = x.p_sub_delay; p_sess_delay = x.p_sess_delay;
        p_sess_proof = x.p_sess_proof; p_swap_enabled = x.p_swap_enabled;
        p_swap_denom = x.p_swap_denom; p_swap_approver = x.p_swap_approver }))
        (fun _ -> q.p_node_share)
        (set (fun p0 -> p0.p_min_sub_hr) (fun f ->
          let z0 = fun r -> f r.p_min_sub_hr in
          (fun x -> { p_prov_deposit = x.p_prov_deposit; p_prov_share =
          x.p_prov_share; p_node_deposit = x.p_node_deposit; p_node_active =
          x.p_node_active; p_max_gb = x.p_max_gb; p_min_gb = x.p_min_gb;
          p_max_hr = x.p_max_hr; p_min_hr = x.p_min_hr; p_max_sub_gb =
          x.p_max_sub_gb; p_min_sub_gb = x.p_min_sub_gb; p_max_sub_hr =
          x.p_max_sub_hr; p_min_sub_hr = (z0 x); p_node_share =
          x.p_node_share; p_sub_delay = x.p_sub_delay; p_sess_delay =
          x.p_sess_delay; p_sess_proof = x.p_sess_proof; p_swap_enabled =
          x.p_swap_enabled; p_swap_denom = x.p_swap_denom; p_swap_approver =
          x.p_swap_approver })) (fun _ -> q.p_min_sub_hr)
          (set (fun p0 -> p0.p_max_sub_hr) (fun f ->
            let z0 = fun r -> f r.p_max_sub_hr in
            (fun x -> { p_prov_deposit = x.p_prov_deposit; p_prov_share =
            x.p_prov_share; p_node_deposit = x.p_node_deposit;
            p_node_active = x.p_node_active; p_max_gb = x.p_max_gb;
            p_min_gb = x.p_min_gb; p_max_hr = x.p_max_hr; p_min_hr =
            x.p_min_hr; p_max_sub_gb = x.p_max_sub_gb; p_min_sub_gb =
            x.p_min_sub_gb; p_max_sub_hr = (z0 x); p_min_sub_hr =
            x.p_min_sub_hr; p_node_share = x.p_node_share; p_sub_delay =
            x.p_sub_delay; p_sess_delay = x.p_sess_delay; p_sess_proof =
            x.p_sess_proof; p_swap_enabled = x.p_swap_enabled; p_swap_denom =
            x.p_swap_denom; p_swap_approver = x.p_swap_approver })) (fun _ ->
            q.p_max_sub_hr)
            (set (fun p0 -> p0.p_min_sub_gb) (fun f ->
              let z0 = fun r -> f r.p_min_sub_gb in
              (fun x -> { p_prov_deposit = x.p_prov_deposit; p_prov_share =
              x.p_prov_share; p_node_deposit = x.p_node_deposit;
              p_node_active = x.p_node_active; p_max_gb = x.p_max_gb;
              p_min_gb = x.p_min_gb; p_max_hr = x.p_max_hr; p_min_hr =
              x.p_min_hr; p_max_sub_gb = x.p_max_sub_gb; p_min_sub_gb =
              (z0 x); p_max_sub_hr = x.p_max_sub_hr; p_min_sub_hr =
              x.p_min_sub_hr; p_node_share = x.p_node_share; p_sub_delay =
              x.p_sub_delay; p_sess_delay = x.p_sess_delay; p_sess_proof =
              x.p_sess_proof; p_swap_enabled = x.p_swap_enabled;
              p_swap_denom = x.p_swap_denom; p_swap_approver =
              x.p_swap_approver })) (fun _ -> q.p_min_sub_gb)
              (set (fun p0 -> p0.p_max_sub_gb) (fun f ->
                let z0 = fun r -> f r.p_max_sub_gb in
                (fun x -> { p_prov_deposit = x.p_prov_deposit; p_prov_share =
                x.p_prov_share; p_node_deposit = x.p_node_deposit;
                p_node_active = x.p_node_active; p_max_gb = x.p_max_gb;
                p_min_gb = x.p_min_gb; p_max_hr = x.p_max_hr; p_min_hr =
                x.p_min_hr; p_max_sub_gb = (z0 x); p_min_sub_gb =
                x.p_min_sub_gb; p_max_sub_hr = x.p_max_sub_hr; p_min_sub_hr =
                x.p_min_sub_hr; p_node_share = x.p_node_share; p_sub_delay =
                x.p_sub_delay; p_sess_delay = x.p_sess_delay; p_sess_proof =
                x.p_sess_proof; p_swap_enabled = x.p_swap_enabled;
                p_swap_denom = x.p_swap_denom; p_swap_approver =
                x.p_swap_approver })) (fun _ -> q.p_max_sub_gb)
                (set (fun p0 -> p0.p_min_hr) (fun f ->
                  let g = fun r -> f r.p_min_hr in
                  (fun x -> { p_prov_deposit = x.p_prov_deposit;
                  p_prov_share = x.p_prov_share; p_node_deposit =
                  x.p_node_deposit; p_node_active = x.p_node_active;
                  p_max_gb = x.p_max_gb; p_min_gb = x.p_min_gb; p_max_hr =
                  x.p_max_hr; p_min_hr = (g x); p_max_sub_gb =
                  x.p_max_sub_gb; p_min_sub_gb = x.p_min_sub_gb;
                  p_max_sub_hr = x.p_max_sub_hr; p_min_sub_hr =
                  x.p_min_sub_hr; p_node_share = x.p_node_share;
                  p_sub_delay = x.p_sub_delay; p_sess_delay = x.p_sess_delay;
                  p_sess_proof = x.p_sess_proof; p_swap_enabled =
                  x.p_swap_enabled; p_swap_denom = x.p_swap_denom;
                  p_swap_approver = x.p_swap_approver })) (fun _ ->
                  q.p_min_hr)
                  (set (fun p0 -> p0.p_max_hr) (fun f ->
                    let g = fun r -> f r.p_max_hr in
                    (fun x -> { p_prov_deposit = x.p_prov_deposit;
                    p_prov_share = x.p_prov_share; p_node_deposit =
                    x.p_node_deposit; p_node_active = x.p_node_active;
                    p_max_gb = x.p_max_gb; p_min_gb = x.p_min_gb; p_max_hr =
                    (g x); p_min_hr = x.p_min_hr; p_max_sub_gb =
                    x.p_max_sub_gb; p_min_sub_gb = x.p_min_sub_gb;
                    p_max_sub_hr = x.p_max_sub_hr; p_min_sub_hr =
                    x.p_min_sub_hr; p_node_share = x.p_node_share;
                    p_sub_delay = x.p_sub_delay; p_sess_delay =
                    x.p_sess_delay; p_sess_proof = x.p_sess_proof;
                    p_swap_enabled = x.p_swap_enabled; p_swap_denom =
                    x.p_swap_denom; p_swap_approver = x.p_swap_approver }))
                    (fun _ -> q.p_max_hr)
                    (set (fun p0 -> p0.p_min_gb) (fun f ->
                      let g = fun r -> f r.p_min_gb in
                      (fun x -> { p_prov_deposit = x.p_prov_deposit;
                      p_prov_share = x.p_prov_share; p_node_deposit =
                      x.p_node_deposit; p_node_active = x.p_node_active;
                      p_max_gb = x.p_max_gb; p_min_gb = (g x); p_max_hr =
                      x.p_max_hr; p_min_hr = x.p_min_hr; p_max_sub_gb =
                      x.p_max_sub_gb; p_min_sub_gb = x.p_min_sub_gb;
                      p_max_sub_hr = x.p_max_sub_hr; p_min_sub_hr =
                      x.p_min_sub_hr; p_node_share = x.p_node_share;
                      p_sub_delay = x.p_sub_delay; p_sess_delay =
                      x.p_sess_delay; p_sess_proof = x.p_sess_proof;
                      p_swap_enabled = x.p_swap_enabled; p_swap_denom =
                      x.p_swap_denom; p_swap_approver = x.p_swap_approver }))
                      (fun _ -> q.p_min_gb)
                      (set (fun p0 -> p0.p_max_gb) (fun f ->
                        let g = fun r -> f r.p_max_gb in
                        (fun x -> { p_prov_deposit = x.p_prov_deposit;
                        p_prov_share = x.p_prov_share; p_node_deposit =
                        x.p_node_deposit; p_node_active = x.p_node_active;
                        p_max_gb = (g x); p_min_gb = x.p_min_gb; p_max_hr =
                        x.p_max_hr; p_min_hr = x.p_min_hr; p_max_sub_gb =
                        x.p_max_sub_gb; p_min_sub_gb = x.p_min_sub_gb;
                        p_max_sub_hr = x.p_max_sub_hr; p_min_sub_hr =
                        x.p_min_sub_hr; p_node_share = x.p_node_share;
                        p_sub_delay = x.p_sub_delay; p_sess_delay =
                        x.p_sess_delay; p_sess_proof = x.p_sess_proof;
                        p_swap_enabled = x.p_swap_enabled; p_swap_denom =
                        x.p_swap_denom; p_swap_approver = x.p_swap_approver }))
                        (fun _ -> q.p_max_gb)
                        (set (fun p0 -> p0.p_node_active) (fun f ->
                          let z0 = fun r -> f r.p_node_active in
                          (fun x -> { p_prov_deposit = x.p_prov_deposit;
                          p_prov_share = x.p_prov_share; p_node_deposit =
                          x.p_node_deposit; p_node_active = (z0 x);
                          p_max_gb = x.p_max_gb; p_min_gb = x.p_min_gb;
                          p_max_hr = x.p_max_hr; p_min_hr = x.p_min_hr;
                          p_max_sub_gb = x.p_max_sub_gb; p_min_sub_gb =
                          x.p_min_sub_gb; p_max_sub_hr = x.p_max_sub_hr;
                          p_min_sub_hr = x.p_min_sub_hr; p_node_share =
                          x.p_node_share; p_sub_delay = x.p_sub_delay;
                          p_sess_delay = x.p_sess_delay; p_sess_proof =
                          x.p_sess_proof; p_swap_enabled = x.p_swap_enabled;
                          p_swap_denom = x.p_swap_denom; p_swap_approver =
                          x.p_swap_approver })) (fun _ -> q.p_node_active)
                          (set (fun p0 -> p0.p_node_deposit) (fun f ->
                            let c = fun r -> f r.p_node_deposit in
                            (fun x -> { p_prov_deposit = x.p_prov_deposit;
                            p_prov_share = x.p_prov_share; p_node_deposit =
                            (c x); p_node_active = x.p_node_active;
                            p_max_gb = x.p_max_gb; p_min_gb = x.p_min_gb;
                            p_max_hr = x.p_max_hr; p_min_hr = x.p_min_hr;
                            p_max_sub_gb = x.p_max_sub_gb; p_min_sub_gb =
                            x.p_min_sub_gb; p_max_sub_hr = x.p_max_sub_hr;
                            p_min_sub_hr = x.p_min_sub_hr; p_node_share =
                            x.p_node_share; p_sub_delay = x.p_sub_delay;
                            p_sess_delay = x.p_sess_delay; p_sess_proof =
                            x.p_sess_proof; p_swap_enabled =
                            x.p_swap_enabled; p_swap_denom = x.p_swap_denom;
                            p_swap_approver = x.p_swap_approver })) (fun _ ->
                            q.p_node_deposit) p))))))))))) s)

(** val set_sub_params : params -> state -> state **)

let set_sub_params q s =
  set (fun s0 -> s0.pars) (fun f ->
    let p = fun r -> f r.pars in
    (fun x -> { cfg = x.cfg; bank = x.bank; supply = x.supply; deposits =
    x.deposits; prov_act = x.prov_act; prov_inact = x.prov_inact; node_act =
    x.node_act; node_inact = x.node_inact; node_q = x.node_q; node_plan =
    x.node_plan; plan_count = x.plan_count; plan_act = x.plan_act;
    plan_inact = x.plan_inact; plan_prov = x.plan_prov; sub_count =
    x.sub_count; subs = x.subs; sub_q = x.sub_q; sub_acc = x.sub_acc;
    sub_node = x.sub_node; sub_plan = x.sub_plan; allocs = x.allocs;
    payouts = x.payouts; pay_q = x.pay_q; pay_acc = x.pay_acc; pay_node =
    x.pay_node; pay_acc_node = x.pay_acc_node; sess_count = x.sess_count;
    sessions = x.sessions; sess_q = x.sess_q; sess_acc = x.sess_acc;
    sess_node = x.sess_node; sess_sub = x.sess_sub; sess_alloc =
    x.sess_alloc; pars = (p x); modified = x.modified; swaps = x.swaps;
    inflations = x.inflations; mint_max = x.mint_max; mint_min = x.mint_min;
    mint_rate = x.mint_rate; mint_inflation = x.mint_inflation; now = x.now;
    events = x.events })) (fun p ->
    set (fun p0 -> p0.p_sub_delay) (fun f ->
      let z0 = fun r -> f r.p_sub_delay in
      (fun x -> { p_prov_deposit = x.p_prov_deposit; p_prov_share =
      x.p_prov_share; p_node_deposit = x.p_node_deposit; p_node_active =
      x.p_node_active; p_max_gb = x.p_max_gb; p_min_gb = x.p_min_gb;
      p_max_hr = x.p_max_hr; p_min_hr = x.p_min_hr; p_max_sub_gb =
      x.p_max_sub_gb; p_min_sub_gb = x.p_min_sub_gb; p_max_sub_hr =
      x.p_max_sub_hr; p_min_sub_hr = x.p_min_sub_hr; p_node_share =
      x.p_node_share; p_sub_delay = (z0 x); p_sess_delay = x.p_sess_delay;
      p_sess_proof = x.p_sess_proof; p_swap_enabled = x.p_swap_enabled;
      p_swap_denom = x.p_swap_denom; p_swap_approver = x.p_swap_approver }))
      (fun _ -> q.p_sub_delay) p) s

(** val set_sess_params : params -> state -> state **)

let set_sess_params q s =
  set (fun s0 -> s0.pars) (fun f ->
    let p = fun r -> f r.pars in
    (fun x -> { cfg = x.cfg; bank = x.bank; supply = x.supply; deposits =
    x.deposits; prov_act = x.prov_act; prov_inact = x.prov_inact; node_act =
    x.node_act; node_inact = x.node_inact; node_q = x.node_q; node_plan =
    x.node_plan; plan_count = x.plan_count; plan_act = x.plan_act;
    plan_inact = x.plan_inact; plan_prov = x.plan_prov; sub_count =
    x.sub_count; subs = x.subs; sub_q = x.sub_q; sub_acc = x.sub_acc;
    sub_node = x.sub_node; sub_plan = x.sub_plan; allocs = x.allocs;
    payouts = x.payouts; pay_q = x.pay_q; pay_acc = x.pay_acc; pay_node =
    x.pay_node; pay_acc_node = x.pay_acc_node; sess_count = x.sess_count;
    sessions = x.sessions; sess_q = x.sess_q; sess_acc = x.sess_acc;
    sess_node = x.sess_node; sess_sub = x.sess_sub; sess_alloc =
    x.sess_alloc; pars = (p x); modified = x.modified; swaps = x.swaps;
    inflations = x.inflations; mint_max = x.mint_max; mint_min = x.mint_min;
    mint_rate = x.mint_rate; mint_inflation = x.mint_inflation; now = x.now;
    events = x.events })) (fun p ->
    set (fun p0 -> p0.p_sess_proof) (fun f ->
      let b = fun r -> f r.p_sess_proof in
      (fun x -> { p_prov_deposit = x.p_prov_deposit; p_prov_share =
      x.p_prov_share; p_node_deposit = x.p_node_deposit; p_node_active =
      x.p_node_active; p_max_gb = x.p_max_gb; p_min_gb = x.p_min_gb;
      p_max_hr = x.p_max_hr; p_min_hr = x.p_min_hr; p_max_sub_gb =
      x.p_max_sub_gb; p_min_sub_gb = x.p_min_sub_gb; p_max_sub_hr =
      x.p_max_sub_hr; p_min_sub_hr = x.p_min_sub_hr; p_node_share =
      x.p_node_share; p_sub_delay = x.p_sub_delay; p_sess_delay =
      x.p_sess_delay; p_sess_proof = (b x); p_swap_enabled =
      x.p_swap_enabled; p_swap_denom = x.p_swap_denom; p_swap_approver =
      x.p_swap_approver })) (fun _ -> q.p_sess_proof)
      (set (fun p0 -> p0.p_sess_delay) (fun f ->
        let z0 = fun r -> f r.p_sess_delay in
        (fun x -> { p_prov_deposit = x.p_prov_deposit; p_prov_share =
        x.p_prov_share; p_node_deposit = x.p_node_deposit; p_node_active =
        x.p_node_active; p_max_gb = x.p_max_gb; p_min_gb = x.p_min_gb;
        p_max_hr = x.p_max_hr; p_min_hr = x.p_min_hr; p_max_sub_gb =
        x.p_max_sub_gb; p_min_sub_gb = x.p_min_sub_gb; p_max_sub_hr =
        x.p_max_sub_hr; p_min_sub_hr = x.p_min_sub_hr; p_node_share =
        x.p_node_share; p_sub_delay = x.p_sub_delay; p_sess_delay = (z0 x);
        p_sess_proof = x.p_sess_proof; p_swap_enabled = x.p_swap_enabled;
        p_swap_denom = x.p_swap_denom; p_swap_approver = x.p_swap_approver }))
        (fun _ -> q.p_sess_delay) p)) s

(** val set_swap_params : params -> state -> state **)

let set_swap_params q s =
  set (fun s0 -> s0.pars) (fun f ->
    let p = fun r -> f r.pars in
    (fun x -> { cfg = x.cfg; bank = x.bank; supply = x.supply; deposits =
    x.deposits; prov_act = x.prov_act; prov_inact = x.prov_inact; node_act =
    x.node_act; node_inact = x.node_inact; node_q = x.node_q; node_plan =
    x.node_plan; plan_count = x.plan_count; plan_act = x.plan_act;
    plan_inact = x.plan_inact; plan_prov = x.plan_prov; sub_count =
    x.sub_count; subs = x.subs; sub_q = x.sub_q; sub_acc = x.sub_acc;
    sub_node = x.sub_node; sub_plan = x.sub_plan; allocs = x.allocs;
    payouts = x.payouts; pay_q = x.pay_q; pay_acc = x.pay_acc; pay_node =
    x.pay_node; pay_acc_node = x.pay_acc_node; sess_count = x.sess_count;
    sessions = x.sessions; sess_q = x.sess_q; sess_acc = x.sess_acc;
    sess_node = x.sess_node; sess_sub = x.sess_sub; sess_alloc =
    x.sess_alloc; pars = (p x); modified = x.modified; swaps = x.swaps;
    inflations = x.inflations; mint_max = x.mint_max; mint_min = x.mint_min;
    mint_rate = x.mint_rate; mint_inflation = x.mint_inflation; now = x.now;
    events = x.events })) (fun p ->
    set (fun p0 -> p0.p_swap_approver) (fun f ->
      let t0 = fun r -> f r.p_swap_approver in
      (fun x -> { p_prov_deposit = x.p_prov_deposit; p_prov_share =
      x.p_prov_share; p_node_deposit = x.p_node_deposit; p_node_active =
      x.p_node_active; p_max_gb = x.p_max_gb; p_min_gb = x.p_min_gb;
      p_max_hr = x.p_max_hr; p_min_hr = x.p_min_hr; p_max_sub_gb =
      x.p_max_sub_gb; p_min_sub_gb = x.p_min_sub_gb; p_max_sub_hr =
      x.p_max_sub_hr; p_min_sub_hr = x.p_min_sub_hr; p_node_share =
      x.p_node_share; p_sub_delay = x.p_sub_delay; p_sess_delay =
      x.p_sess_delay; p_sess_proof = x.p_sess_proof; p_swap_enabled =
      x.p_swap_enabled; p_swap_denom = x.p_swap_denom; p_swap_approver =
      (t0 x) })) (fun _ -> q.p_swap_approver)
      (set (fun p0 -> p0.p_swap_denom) (fun f ->
        let d = fun r -> f r.p_swap_denom in
        (fun x -> { p_prov_deposit = x.p_prov_deposit; p_prov_share =
        x.p_prov_share; p_node_deposit = x.p_node_deposit; p_node_active =
        x.p_node_active; p_max_gb = x.p_max_gb; p_min_gb = x.p_min_gb;
        p_max_hr = x.p_max_hr; p_min_hr = x.p_min_hr; p_max_sub_gb =
        x.p_max_sub_gb; p_min_sub_gb = x.p_min_sub_gb; p_max_sub_hr =
        x.p_max_sub_hr; p_min_sub_hr = x.p_min_sub_hr; p_node_share =
        x.p_node_share; p_sub_delay = x.p_sub_delay; p_sess_delay =
        x.p_sess_delay; p_sess_proof = x.p_sess_proof; p_swap_enabled =
        x.p_swap_enabled; p_swap_denom = (d x); p_swap_approver =
        x.p_swap_approver })) (fun _ -> q.p_swap_denom)
        (set (fun p0 -> p0.p_swap_enabled) (fun f ->
          let b = fun r -> f r.p_swap_enabled in
          (fun x -> { p_prov_deposit = x.p_prov_deposit; p_prov_share =
          x.p_prov_share; p_node_deposit = x.p_node_deposit; p_node_active =
          x.p_node_active; p_max_gb = x.p_max_gb; p_min_gb = x.p_min_gb;
          p_max_hr = x.p_max_hr; p_min_hr = x.p_min_hr; p_max_sub_gb =
          x.p_max_sub_gb; p_min_sub_gb = x.p_min_sub_gb; p_max_sub_hr =
          x.p_max_sub_hr; p_min_sub_hr = x.p_min_sub_hr; p_node_share =
          x.p_node_share; p_sub_delay = x.p_sub_delay; p_sess_delay =
          x.p_sess_delay; p_sess_proof = x.p_sess_proof; p_swap_enabled =
          (b x); p_swap_denom = x.p_swap_denom; p_swap_approver =
          x.p_swap_approver })) (fun _ -> q.p_swap_enabled) p))) s

(** val import_vpn : gen_doc -> state -> state res **)

let import_vpn d s =
  let q = d.gd_params in
  rbind (rfold imp_deposit d.gd_deposits s) (fun s0 ->
    rbind (rfold imp_node d.gd_nodes (set_node_params q s0)) (fun s1 ->
      rbind (rfold imp_plan d.gd_plans s1) (fun s2 ->
        let s3 =
          set (fun s3 -> s3.plan_count) (fun f ->
            let z0 = fun r -> f r.plan_count in
            (fun x -> { cfg = x.cfg; bank = x.bank; supply = x.supply;
            deposits = x.deposits; prov_act = x.prov_act; prov_inact =
            x.prov_inact; node_act = x.node_act; node_inact = x.node_inact;
            node_q = x.node_q; node_plan = x.node_plan; plan_count = 
            (z0 x); plan_act = x.plan_act; plan_inact = x.plan_inact;
            plan_prov = x.plan_prov; sub_count = x.sub_count; subs = x.subs;
            sub_q = x.sub_q; sub_acc = x.sub_acc; sub_node = x.sub_node;
            sub_plan = x.sub_plan; allocs = x.allocs; payouts = x.payouts;
            pay_q = x.pay_q; pay_acc = x.pay_acc; pay_node = x.pay_node;
            pay_acc_node = x.pay_acc_node; sess_count = x.sess_count;
            sessions = x.sessions; sess_q = x.sess_q; sess_acc = x.sess_acc;
            sess_node = x.sess_node; sess_sub = x.sess_sub; sess_alloc =
            x.sess_alloc; pars = x.pars; modified = x.modified; swaps =
            x.swaps; inflations = x.inflations; mint_max = x.mint_max;
            mint_min = x.mint_min; mint_rate = x.mint_rate; mint_inflation =
            x.mint_inflation; now = x.now; events = x.events })) (fun _ ->
            max_id (fun i -> i.gp_plan.pl_id) d.gd_plans) s2
        in
        rbind (rfold imp_provider d.gd_providers (set_prov_params q s3))
          (fun s4 ->
          rbind (rfold imp_session d.gd_sessions (set_sess_params q s4))
            (fun s5 ->
            let s6 =
              set (fun s6 -> s6.sess_count) (fun f ->
                let z0 = fun r -> f r.sess_count in
                (fun x -> { cfg = x.cfg; bank = x.bank; supply = x.supply;
                deposits = x.deposits; prov_act = x.prov_act; prov_inact =
                x.prov_inact; node_act = x.node_act; node_inact =
                x.node_inact; node_q = x.node_q; node_plan = x.node_plan;
                plan_count = x.plan_count; plan_act = x.plan_act;
                plan_inact = x.plan_inact; plan_prov = x.plan_prov;
                sub_count = x.sub_count; subs = x.subs; sub_q = x.sub_q;
                sub_acc = x.sub_acc; sub_node = x.sub_node; sub_plan =
                x.sub_plan; allocs = x.allocs; payouts = x.payouts; pay_q =
                x.pay_q; pay_acc = x.pay_acc; pay_node = x.pay_node;
                pay_acc_node = x.pay_acc_node; sess_count = (z0 x);
                sessions = x.sessions; sess_q = x.sess_q; sess_acc =
                x.sess_acc; sess_node = x.sess_node; sess_sub = x.sess_sub;
                sess_alloc = x.sess_alloc; pars = x.pars; modified =
                x.modified; swaps = x.swaps; inflations = x.inflations;
                mint_max = x.mint_max; mint_min = x.mint_min; mint_rate =
                x.mint_rate; mint_inflation = x.mint_inflation; now = x.now;
                events = x.events })) (fun _ ->
                max_id (fun s6 -> s6.ss_id) d.gd_sessions) s5
            in
            Ok (set_sub_params q s6))))))

(** val import_swap : gen_doc -> state -> state res **)

let import_swap d s =
  rfold imp_swap d.gd_swaps (set_swap_params d.gd_params s)

(** val import_mint : gen_doc -> state -> state res **)

let import_mint d s =
  rfold imp_inflation d.gd_inflations s

(** val import_hub : gen_doc -> state -> state res **)

let import_hub d s =
  rbind (import_vpn d s) (fun s0 ->
    rbind (import_swap d s0) (fun s1 -> import_mint d s1))

(** val blank_params : params **)

let blank_params =
  { p_prov_deposit = (N0, Z0); p_prov_share = Z0; p_node_deposit = (N0, Z0);
    p_node_active = Z0; p_max_gb =
    (empty0 (gmap_empty n_eq_dec n_countable)); p_min_gb =
    (empty0 (gmap_empty n_eq_dec n_countable)); p_max_hr =
    (empty0 (gmap_empty n_eq_dec n_countable)); p_min_hr =
    (empty0 (gmap_empty n_eq_dec n_countable)); p_max_sub_gb = Z0;
    p_min_sub_gb = Z0; p_max_sub_hr = Z0; p_min_sub_hr = Z0; p_node_share =
    Z0; p_sub_delay = Z0; p_sess_delay = Z0; p_sess_proof = false;
    p_swap_enabled = false; p_swap_denom = N0; p_swap_approver = { ta_role =
    RAcc; ta_upper = false; ta_bytes = [] } }

(** val fresh_like : state -> state **)

let fresh_like s =
  set (fun s0 -> s0.now) (fun f ->
    let t0 = fun r -> f r.now in
    (fun x -> { cfg = x.cfg; bank = x.bank; supply = x.supply; deposits =
    x.deposits; prov_act = x.prov_act; prov_inact = x.prov_inact; node_act =
    x.node_act; node_inact = x.node_inact; node_q = x.node_q; node_plan =
    x.node_plan; plan_count = x.plan_count; plan_act = x.plan_act;
    plan_inact = x.plan_inact; plan_prov = x.plan_prov; sub_count =
    x.sub_count; subs = x.subs; sub_q = x.sub_q; sub_acc = x.sub_acc;
    sub_node = x.sub_node; sub_plan = x.sub_plan; allocs = x.allocs;
    payouts = x.payouts; pay_q = x.pay_q; pay_acc = x.pay_acc; pay_node =
    x.pay_node; pay_acc_node = x.pay_acc_node; sess_count = x.sess_count;
    sessions = x.sessions; sess_q = x.sess_q; sess_acc = x.sess_acc;
    sess_node = x.sess_node; sess_sub = x.sess_sub; sess_alloc =
    x.sess_alloc; pars = x.pars; modified = x.modified; swaps = x.swaps;
    inflations = x.inflations; mint_max = x.mint_max; mint_min = x.mint_min;
    mint_rate = x.mint_rate; mint_inflation = x.mint_inflation; now = 
    (t0 x); events = x.events })) (fun _ -> s.now)
    (set (fun s0 -> s0.mint_inflation) (fun f ->
      let z0 = fun r -> f r.mint_inflation in
      (fun x -> { cfg = x.cfg; bank = x.bank; supply = x.supply; deposits =
      x.deposits; prov_act = x.prov_act; prov_inact = x.prov_inact;
      node_act = x.node_act; node_inact = x.node_inact; node_q = x.node_q;
      node_plan = x.node_plan; plan_count = x.plan_count; plan_act =
      x.plan_act; plan_inact = x.plan_inact; plan_prov = x.plan_prov;
      sub_count = x.sub_count; subs = x.subs; sub_q = x.sub_q; sub_acc =
      x.sub_acc; sub_node = x.sub_node; sub_plan = x.sub_plan; allocs =
      x.allocs; payouts = x.payouts; pay_q = x.pay_q; pay_acc = x.pay_acc;
      pay_node = x.pay_node; pay_acc_node = x.pay_acc_node; sess_count =
      x.sess_count; sessions = x.sessions; sess_q = x.sess_q; sess_acc =
      x.sess_acc; sess_node = x.sess_node; sess_sub = x.sess_sub;
      sess_alloc = x.sess_alloc; pars = x.pars; modified = x.modified;
      swaps = x.swaps; inflations = x.inflations; mint_max = x.mint_max;
      mint_min = x.mint_min; mint_rate = x.mint_rate; mint_inflation =
      (z0 x); now = x.now; events = x.events })) (fun _ -> s.mint_inflation)
      (set (fun s0 -> s0.mint_rate) (fun f ->
        let z0 = fun r -> f r.mint_rate in
        (fun x -> { cfg = x.cfg; bank = x.bank; supply = x.supply; deposits =
        x.deposits; prov_act = x.prov_act; prov_inact = x.prov_inact;
        node_act = x.node_act; node_inact = x.node_inact; node_q = x.node_q;
        node_plan = x.node_plan; plan_count = x.plan_count; plan_act =
        x.plan_act; plan_inact = x.plan_inact; plan_prov = x.plan_prov;
        sub_count = x.sub_count; subs = x.subs; sub_q = x.sub_q; sub_acc =
        x.sub_acc; sub_node = x.sub_node; sub_plan = x.sub_plan; allocs =
        x.allocs; payouts = x.payouts; pay_q = x.pay_q; pay_acc = x.pay_acc;
        pay_node = x.pay_node; pay_acc_node = x.pay_acc_node; sess_count =
        x.sess_count; sessions = x.sessions; sess_q = x.sess_q; sess_acc =
        x.sess_acc; sess_node = x.sess_node; sess_sub = x.sess_sub;
        sess_alloc = x.sess_alloc; pars = x.pars; modified = x.modified;
        swaps = x.swaps; inflations = x.inflations; mint_max = x.mint_max;
        mint_min = x.mint_min; mint_rate = (z0 x); mint_inflation =
        x.mint_inflation; now = x.now; events = x.events })) (fun _ ->
        s.mint_rate)
        (set (fun s0 -> s0.mint_min) (fun f ->
          let z0 = fun r -> f r.mint_min in
          (fun x -> { cfg = x.cfg; bank = x.bank; supply = x.supply;
          deposits = x.deposits; prov_act = x.prov_act; prov_inact =
          x.prov_inact; node_act = x.node_act; node_inact = x.node_inact;
          node_q = x.node_q; node_plan = x.node_plan; plan_count =
          x.plan_count; plan_act = x.plan_act; plan_inact = x.plan_inact;
          plan_prov = x.plan_prov; sub_count = x.sub_count; subs = x.subs;
          sub_q = x.sub_q; sub_acc = x.sub_acc; sub_node = x.sub_node;
          sub_plan = x.sub_plan; allocs = x.allocs; payouts = x.payouts;
          pay_q = x.pay_q; pay_acc = x.pay_acc; pay_node = x.pay_node;
          pay_acc_node = x.pay_acc_node; sess_count = x.sess_count;
          sessions = x.sessions; sess_q = x.sess_q; sess_acc = x.sess_acc;
          sess_node = x.sess_node; sess_sub = x.sess_sub; sess_alloc =
          x.sess_alloc; pars = x.pars; modified = x.modified; swaps =
          x.swaps; inflations = x.inflations; mint_max = x.mint_max;
          mint_min = (z0 x); mint_rate = x.mint_rate; mint_inflation =
          x.mint_inflation; now = x.now; events = x.events })) (fun _ ->
          s.mint_min)
          (set (fun s0 -> s0.mint_max) (fun f ->
            let z0 = fun r -> f r.mint_max in
            (fun x -> { cfg = x.cfg; bank = x.bank; supply = x.supply;
            deposits = x.deposits; prov_act = x.prov_act; prov_inact =
            x.prov_inact; node_act = x.node_act; node_inact = x.node_inact;
            node_q = x.node_q; node_plan = x.node_plan; plan_count =
            x.plan_count; plan_act = x.plan_act; plan_inact = x.plan_inact;
            plan_prov = x.plan_prov; sub_count = x.sub_count; subs = x.subs;
            sub_q = x.sub_q; sub_acc = x.sub_acc; sub_node = x.sub_node;
            sub_plan = x.sub_plan; allocs = x.allocs; payouts = x.payouts;
            pay_q = x.pay_q; pay_acc = x.pay_acc; pay_node = x.pay_node;
            pay_acc_node = x.pay_acc_node; sess_count = x.sess_count;
            sessions = x.sessions; sess_q = x.sess_q; sess_acc = x.sess_acc;
            sess_node = x.sess_node; sess_sub = x.sess_sub; sess_alloc =
            x.sess_alloc; pars = x.pars; modified = x.modified; swaps =
            x.swaps; inflations = x.inflations; mint_max = (z0 x); mint_min =
            x.mint_min; mint_rate = x.mint_rate; mint_inflation =
            x.mint_inflation; now = x.now; events = x.events })) (fun _ ->
            s.mint_max)
            (set (fun s0 -> s0.supply) (fun f ->
              let g = fun r -> f r.supply in
              (fun x -> { cfg = x.cfg; bank = x.bank; supply = (g x);
              deposits = x.deposits; prov_act = x.prov_act; prov_inact =
              x.prov_inact; node_act = x.node_act; node_inact = x.node_inact;
              node_q = x.node_q; node_plan = x.node_plan; plan_count =
              x.plan_count; plan_act = x.plan_act; plan_inact = x.plan_inact;
              plan_prov = x.plan_prov; sub_count = x.sub_count; subs =
              x.subs; sub_q = x.sub_q; sub_acc = x.sub_acc; sub_node =
              x.sub_node; sub_plan = x.sub_plan; allocs = x.allocs; payouts =
              x.payouts; pay_q = x.pay_q; pay_acc = x.pay_acc; pay_node =
              x.pay_node; pay_acc_node = x.pay_acc_node; sess_count =
              x.sess_count; sessions = x.sessions; sess_q = x.sess_q;
              sess_acc = x.sess_acc; sess_node = x.sess_node; sess_sub =
              x.sess_sub; sess_alloc = x.sess_alloc; pars = x.pars;
              modified = x.modified; swaps = x.swaps; inflations =
              x.inflations; mint_max = x.mint_max; mint_min = x.mint_min;
              mint_rate = x.mint_rate; mint_inflation = x.mint_inflation;
              now = x.now; events = x.events })) (fun _ -> s.supply)
              (set (fun s0 -> s0.bank) (fun f ->
                let g = fun r -> f r.bank in
                (fun x -> { cfg = x.cfg; bank = (g x); supply = x.supply;
                deposits = x.deposits; prov_act = x.prov_act; prov_inact =
                x.prov_inact; node_act = x.node_act; node_inact =
                x.node_inact; node_q = x.node_q; node_plan = x.node_plan;
                plan_count = x.plan_count; plan_act = x.plan_act;
                plan_inact = x.plan_inact; plan_prov = x.plan_prov;
                sub_count = x.sub_count; subs = x.subs; sub_q = x.sub_q;
                sub_acc = x.sub_acc; sub_node = x.sub_node; sub_plan =
                x.sub_plan; allocs = x.allocs; payouts = x.payouts; pay_q =
                x.pay_q; pay_acc = x.pay_acc; pay_node = x.pay_node;
                pay_acc_node = x.pay_acc_node; sess_count = x.sess_count;
                sessions = x.sessions; sess_q = x.sess_q; sess_acc =
                x.sess_acc; sess_node = x.sess_node; sess_sub = x.sess_sub;
                sess_alloc = x.sess_alloc; pars = x.pars; modified =
                x.modified; swaps = x.swaps; inflations = x.inflations;
                mint_max = x.mint_max; mint_min = x.mint_min; mint_rate =
                x.mint_rate; mint_inflation = x.mint_inflation; now = x.now;
                events = x.events })) (fun _ -> s.bank)
                (empty_state s.cfg blank_params)))))))

(** val import : state -> gen_doc -> state res **)

let import s_sdk d =
  import_hub d (fresh_like s_sdk)

(** val roundtrip : state -> (verdict * state) res **)

let roundtrip s =
  rbind (export s) (fun d ->
    rbind (import s d) (fun s' -> Ok ((validate d), s')))

(** val genesis_roundtrip : state -> (bool * state) option **)

let genesis_roundtrip s =
  match roundtrip s with
  | Ok a -> let (v, s') = a in Some ((verdict_ok v), s')
  | _ -> None
