(* Runner of the extracted model: reads the operation file written by the
   harness, executes it with Hub_model.step and prints one observation line per
   operation in the same JSON structure as the harness.  Glue only: parsing,
   number conversion (Zarith <-> the extracted Z) and printing. *)
module H = Hub_model

(* ---------- numbers and strings ---------- *)
let rec pos_of_z (z : Z.t) : H.positive =
  if Z.equal z Z.one then H.XH
  else
    let q = Z.shift_right z 1 in
    if Z.testbit z 0 then H.XI (pos_of_z q) else H.XO (pos_of_z q)
let hz_of (z : Z.t) : H.z =
  if Z.sign z = 0 then H.Z0 else if Z.sign z > 0 then H.Zpos (pos_of_z z) else H.Zneg (pos_of_z (Z.neg z))
let rec z_of_pos = function
  | H.XH -> Z.one
  | H.XO p -> Z.shift_left (z_of_pos p) 1
  | H.XI p -> Z.succ (Z.shift_left (z_of_pos p) 1)
let z_of_hz = function H.Z0 -> Z.zero | H.Zpos p -> z_of_pos p | H.Zneg p -> Z.neg (z_of_pos p)
let hn_of_int i : H.n = if i = 0 then H.N0 else H.Npos (pos_of_z (Z.of_int i))
let int_of_hn = function H.N0 -> 0 | H.Npos p -> Z.to_int (z_of_pos p)
let hz s = hz_of (Z.of_string s)
let zs (z : H.z) = Z.to_string (z_of_hz z)

let hstring_of (s : string) : H.string =
  let r = ref H.EmptyString in
  for i = String.length s - 1 downto 0 do
    let c = Char.code s.[i] in
    let b k = (c lsr k) land 1 = 1 in
    r := H.String (H.Ascii (b 0, b 1, b 2, b 3, b 4, b 5, b 6, b 7), !r)
  done;
  !r
let string_of_h (s : H.string) : string =
  let b = Buffer.create 16 in
  let rec go = function
    | H.EmptyString -> ()
    | H.String (H.Ascii (b0, b1, b2, b3, b4, b5, b6, b7), r) ->
        let v x k = if x then 1 lsl k else 0 in
        Buffer.add_char b (Char.chr (v b0 0 + v b1 1 + v b2 2 + v b3 3 + v b4 4 + v b5 5 + v b6 6 + v b7 7));
        go r
  in
  go s; Buffer.contents b

let hexdigit c = match c with
  | '0'..'9' -> Char.code c - 48 | 'a'..'f' -> Char.code c - 87 | 'A'..'F' -> Char.code c - 55
  | _ -> failwith "bad hex"
let bytes_of_hex (s : string) : H.n list =
  let n = String.length s / 2 in
  List.init n (fun i -> hn_of_int (hexdigit s.[2*i] * 16 + hexdigit s.[2*i+1]))
let string_of_hex (s : string) : string =
  String.init (String.length s / 2) (fun i -> Char.chr (hexdigit s.[2*i] * 16 + hexdigit s.[2*i+1]))
let hex_of_bytes (l : H.n list) : string =
  String.concat "" (List.map (fun x -> Printf.sprintf "%02x" (int_of_hn x)) l)
let hex_of_string (s : string) : string =
  String.concat "" (List.map (fun c -> Printf.sprintf "%02x" (Char.code c)) (List.of_seq (String.to_seq s)))

(* ---------- tokens ---------- *)
let split_on c s = if s = "" then [] else String.split_on_char c s
let parse_taddr (tok : string) : H.taddr =
  let i = String.index tok ':' in
  let r = tok.[0] in
  let up = r >= 'A' && r <= 'Z' in
  let role = match Char.lowercase_ascii r with 'a' -> H.RAcc | 'n' -> H.RNode | 'p' -> H.RProv | _ -> failwith "role" in
  { H.ta_role = role; ta_upper = up; ta_bytes = bytes_of_hex (String.sub tok (i+1) (String.length tok - i - 1)) }
let tok_of_taddr (t : H.taddr) : string =
  let r = match t.H.ta_role with H.RAcc -> "a" | H.RNode -> "n" | H.RProv -> "p" in
  (if t.H.ta_upper then String.uppercase_ascii r else r) ^ ":" ^ hex_of_bytes t.H.ta_bytes
let parse_coin (tok : string) : H.coin =
  let i = String.index tok ':' in
  (hn_of_int (int_of_string (String.sub tok 0 i)), hz (String.sub tok (i+1) (String.length tok - i - 1)))
let parse_coins (tok : string) : H.coin list option =
  if tok = "nil" then None
  else
    let inner = String.sub tok 1 (String.length tok - 2) in
    Some (List.map parse_coin (split_on ',' inner))
let coins_or_empty tok = match parse_coins tok with Some l -> l | None -> []
let parse_str (tok : string) : H.string = hstring_of (string_of_hex (String.sub tok 2 (String.length tok - 2)))
let parse_bool tok = tok = "1"
let parse_status tok = match tok with "0" -> H.SUnspec | "1" -> H.SActive | "2" -> H.SPending | "3" -> H.SInactive
  | _ -> H.SUnspec  (* out-of-range statuses are not generated *)
let parse_denom tok = hn_of_int (int_of_string tok)

let parse_msg (a : string array) : H.msg =
  let t i = parse_taddr a.(i) and z i = hz a.(i) and s i = parse_str a.(i) and b i = parse_bool a.(i) in
  match a.(0) with
  | "prov_register" -> H.MProvRegister (t 1, s 2, s 3, s 4, s 5, b 6)
  | "prov_update" -> H.MProvUpdate (t 1, s 2, s 3, s 4, s 5, b 6, parse_status a.(7))
  | "node_register" -> H.MNodeRegister (t 1, parse_coins a.(2), parse_coins a.(3), s 4, b 5)
  | "node_update_details" -> H.MNodeUpdateDetails (t 1, parse_coins a.(2), parse_coins a.(3), s 4, b 5)
  | "node_update_status" -> H.MNodeUpdateStatus (t 1, parse_status a.(2))
  | "node_subscribe" -> H.MNodeSubscribe (t 1, t 2, z 3, z 4, parse_denom a.(5))
  | "plan_create" -> H.MPlanCreate (t 1, z 2, z 3, parse_coins a.(4))
  | "plan_update_status" -> H.MPlanUpdateStatus (t 1, z 2, parse_status a.(3))
  | "plan_link" -> H.MPlanLink (t 1, z 2, t 3)
  | "plan_unlink" -> H.MPlanUnlink (t 1, z 2, t 3)
  | "plan_subscribe" -> H.MPlanSubscribe (t 1, z 2, parse_denom a.(3))
  | "sub_cancel" -> H.MSubCancel (t 1, z 2)
  | "sub_allocate" -> H.MSubAllocate (t 1, z 2, t 3, z 4)
  | "sess_start" -> H.MSessStart (t 1, z 2, t 3)
  | "sess_update" ->
      let sl = if a.(6) = "nil" then None else Some (hz_of (Z.of_int (String.length a.(6) / 2))) in
      H.MSessUpdate (t 1, z 2, z 3, z 4, z 5, sl, b 7)
  | "sess_end" -> H.MSessEnd (t 1, z 2, z 3)
  | "swap" -> H.MSwap (t 1, bytes_of_hex (String.sub a.(2) 2 (String.length a.(2) - 2)), t 3, z 4)
  | k -> failwith ("unknown message " ^ k)

let parse_pchange (k : string) (v : string) : H.pchange =
  match k with
  | "prov_deposit" -> H.PCProvDeposit (parse_coin v)
  | "prov_share" -> H.PCProvShare (hz v)
  | "node_deposit" -> H.PCNodeDeposit (parse_coin v)
  | "node_active" -> H.PCNodeActive (hz v)
  | "max_gb" -> H.PCMaxGb (coins_or_empty v)
  | "min_gb" -> H.PCMinGb (coins_or_empty v)
  | "max_hr" -> H.PCMaxHr (coins_or_empty v)
  | "min_hr" -> H.PCMinHr (coins_or_empty v)
  | "max_sub_gb" -> H.PCMaxSubGb (hz v)
  | "min_sub_gb" -> H.PCMinSubGb (hz v)
  | "max_sub_hr" -> H.PCMaxSubHr (hz v)
  | "min_sub_hr" -> H.PCMinSubHr (hz v)
  | "node_share" -> H.PCNodeShare (hz v)
  | "sub_delay" -> H.PCSubDelay (hz v)
  | "sess_delay" -> H.PCSessDelay (hz v)
  | "sess_proof" -> H.PCSessProof (parse_bool v)
  | "swap_enabled" -> H.PCSwapEnabled (parse_bool v)
  | "swap_denom" -> H.PCSwapDenom (parse_denom v)
  | "swap_approver" -> H.PCSwapApprover (parse_taddr v)
  | _ -> failwith ("unknown param " ^ k)

let rec pairs = function k :: v :: r -> (k, v) :: pairs r | _ -> []

(* ---------- JSON printing ---------- *)
let q s = "\"" ^ s ^ "\""
let arr l = "[" ^ String.concat "," l ^ "]"
let obj l = "{" ^ String.concat "," (List.map (fun (k, v) -> q k ^ ":" ^ v) l) ^ "}"
let jz z = q (zs z)
let jb b = if b then "true" else "false"
let jcoin ((d, a) : H.coin) = arr [string_of_int (int_of_hn d); jz a]
let jcoins (l : H.coin list) = arr (List.map jcoin l)
let jcoins_map (l : H.coin list) extra =
  obj (List.map (fun (d, a) -> (string_of_int (int_of_hn d), jz a)) l @ extra)
let jhex l = q (hex_of_bytes l)
let jstr (s : H.string) = q (hex_of_string (string_of_h s))
let jstatus = function H.SUnspec -> "0" | H.SActive -> "1" | H.SPending -> "2" | H.SInactive -> "3"

let jev ((name, vals) : H.event) =
  let v = function
    | H.VZ z -> obj ["z", jz z]
    | H.VT t -> obj ["t", q (tok_of_taddr t)]
    | H.VS s -> obj ["s", jstatus s]
    | H.VC c -> obj ["c", jcoins c]
    | H.VH h -> obj ["h", jhex h] in
  arr [q (string_of_h name); arr (List.map v vals)]

let jstate (s : H.state) : string =
  let nonempty l = List.filter (fun (_, c) -> c <> []) l in
  let bal = obj (List.map (fun (a, c) -> (hex_of_bytes a, jcoins_map c [])) (nonempty (H.d_bank s))) in
  let dep = obj (List.map (fun (a, c) -> (hex_of_bytes a, jcoins_map c ["_a", jhex a])) (H.d_deposits s)) in
  let prov part (ka, (p : H.provider)) =
    obj ["ka", jhex ka; "part", part; "a", jhex p.H.pv_addr; "name", jstr p.H.pv_name; "ident", jstr p.H.pv_identity;
         "web", jstr p.H.pv_website; "desc", jstr p.H.pv_description; "st", jstatus p.H.pv_status; "at", jz p.H.pv_status_at] in
  let node part (ka, (n : H.node)) =
    obj ["ka", jhex ka; "part", part; "a", jhex n.H.nd_addr; "gb", jcoins (H.d_coins n.H.nd_gb_prices);
         "hr", jcoins (H.d_coins n.H.nd_hr_prices); "url", jstr n.H.nd_url; "iat", jz n.H.nd_inactive_at;
         "st", jstatus n.H.nd_status; "at", jz n.H.nd_status_at] in
  let plan part (kid, (p : H.plan)) =
    obj ["kid", jz kid; "part", part; "id", jz p.H.pl_id; "prov", jhex p.H.pl_prov; "dur", jz p.H.pl_duration;
         "gb", jz p.H.pl_gb; "prices", jcoins (H.d_coins p.H.pl_prices); "st", jstatus p.H.pl_status; "at", jz p.H.pl_status_at] in
  let sub (kid, (x : H.subscription)) =
    let base = ["kid", jz kid; "id", jz x.H.sb_id; "a", jhex x.H.sb_addr; "iat", jz x.H.sb_inactive_at;
                "st", jstatus x.H.sb_status; "at", jz x.H.sb_status_at] in
    match x.H.sb_kind with
    | H.KNode (nd, g, h, dep) -> obj (base @ ["k", q "node"; "node", jhex nd; "gb", jz g; "hr", jz h; "dep", jcoin dep])
    | H.KPlan (pid, dn) -> obj (base @ ["k", q "plan"; "plan", jz pid; "dn", string_of_int (int_of_hn dn)]) in
  let alloc (((kid, ka), (a : H.allocation))) =
    obj ["kid", jz kid; "ka", jhex ka; "id", jz a.H.al_id; "a", jhex a.H.al_addr; "g", jz a.H.al_granted; "u", jz a.H.al_used] in
  let payout (kid, (p : H.payout)) =
    obj ["kid", jz kid; "id", jz p.H.po_id; "a", jhex p.H.po_addr; "node", jhex p.H.po_node; "h", jz p.H.po_hours;
         "price", jcoin p.H.po_price; "nx", jz p.H.po_next_at] in
  let sess (kid, (x : H.session)) =
    obj ["kid", jz kid; "id", jz x.H.ss_id; "sub", jz x.H.ss_sub; "node", jhex x.H.ss_node; "a", jhex x.H.ss_addr;
         "up", jz x.H.ss_up; "down", jz x.H.ss_down; "dur", jz x.H.ss_duration; "iat", jz x.H.ss_inactive_at;
         "st", jstatus x.H.ss_status; "at", jz x.H.ss_status_at] in
  let ta l = arr (List.map (fun (t, a) -> arr [jz t; jhex a]) l) in
  let tz l = arr (List.map (fun (t, z) -> arr [jz t; jz z]) l) in
  let az l = arr (List.map (fun (a, z) -> arr [jhex a; jz z]) l) in
  let za l = arr (List.map (fun (z, a) -> arr [jz z; jhex a]) l) in
  let ix = obj [
    "node_q", ta (H.d_node_q s); "node_plan", za (H.d_node_plan s); "plan_prov", az (H.d_plan_prov s);
    "sub_q", tz (H.d_sub_q s); "sub_acc", az (H.d_sub_acc s); "sub_node", az (H.d_sub_node s); "sub_plan", tz (H.d_sub_plan s);
    "pay_q", tz (H.d_pay_q s); "pay_acc", az (H.d_pay_acc s); "pay_node", az (H.d_pay_node s);
    "pay_acc_node", arr (List.map (fun ((a, n), z) -> arr [jhex a; jhex n; jz z]) (H.d_pay_acc_node s));
    "sess_q", tz (H.d_sess_q s); "sess_acc", az (H.d_sess_acc s); "sess_node", az (H.d_sess_node s); "sess_sub", tz (H.d_sess_sub s);
    "sess_alloc", arr (List.map (fun ((z, a), i) -> arr [jz z; jhex a; jz i]) (H.d_sess_alloc s));
    "unknown", "[]" ] in
  let p = s.H.pars in
  let par = obj [
    "prov_deposit", jcoin p.H.p_prov_deposit; "prov_share", jz p.H.p_prov_share;
    "node_deposit", jcoin p.H.p_node_deposit; "node_active", jz p.H.p_node_active;
    "max_gb", jcoins (H.d_coins p.H.p_max_gb); "min_gb", jcoins (H.d_coins p.H.p_min_gb);
    "max_hr", jcoins (H.d_coins p.H.p_max_hr); "min_hr", jcoins (H.d_coins p.H.p_min_hr);
    "max_sub_gb", jz p.H.p_max_sub_gb; "min_sub_gb", jz p.H.p_min_sub_gb;
    "max_sub_hr", jz p.H.p_max_sub_hr; "min_sub_hr", jz p.H.p_min_sub_hr;
    "node_share", jz p.H.p_node_share; "sub_delay", jz p.H.p_sub_delay;
    "sess_delay", jz p.H.p_sess_delay; "sess_proof", jb p.H.p_sess_proof;
    "swap_enabled", jb p.H.p_swap_enabled; "swap_denom", string_of_int (int_of_hn p.H.p_swap_denom);
    "swap_approver", q (tok_of_taddr p.H.p_swap_approver) ] in
  let m = s.H.modified in
  obj [
    "bal", bal; "supply", jcoins_map (H.d_supply s) []; "dep", dep;
    "prov", arr (List.map (prov "1") (H.d_prov_act s) @ List.map (prov "2") (H.d_prov_inact s));
    "node", arr (List.map (node "1") (H.d_node_act s) @ List.map (node "2") (H.d_node_inact s));
    "plan", arr (List.map (plan "1") (H.d_plan_act s) @ List.map (plan "2") (H.d_plan_inact s));
    "sub", arr (List.map sub (H.d_subs s)); "alloc", arr (List.map alloc (H.d_allocs s));
    "payout", arr (List.map payout (H.d_payouts s)); "sess", arr (List.map sess (H.d_sessions s));
    "ix", ix;
    "cnt", obj ["plan", jz s.H.plan_count; "sub", jz s.H.sub_count; "sess", jz s.H.sess_count];
    "par", par;
    "mod", arr [jb m.H.m_max_gb; jb m.H.m_min_gb; jb m.H.m_max_hr; jb m.H.m_min_hr];
    "swap", arr (List.map (fun (kh, (w : H.swap)) ->
        obj ["h", jhex w.H.sw_hash; "rcv", q (tok_of_taddr w.H.sw_receiver); "amt", jcoin w.H.sw_amount; "kh", jhex kh]) (H.d_swaps s));
    "infl", arr (List.map (fun (kt, (i : H.inflation)) ->
        obj ["max", jz i.H.inf_max; "min", jz i.H.inf_min; "rate", jz i.H.inf_rate; "ts", jz i.H.inf_ts; "kt", jz kt]) (H.d_inflations s));
    "mint", arr [jz s.H.mint_max; jz s.H.mint_min; jz s.H.mint_rate; jz s.H.mint_inflation];
    "now", jz s.H.now ]

(* ---------- running ---------- *)
type gacc = {
  mutable cfg : H.config option; mutable bals : (H.addr * H.coin) list; mutable pars : H.params option;
  mutable infl : H.inflation list; mutable mint : (H.z * H.z * H.z * H.z); mutable time : H.z }

let dummy_taddr = { H.ta_role = H.RAcc; ta_upper = false; ta_bytes = [] }
let default_params : H.params = {
  H.p_prov_deposit = (H.N0, H.Z0); p_prov_share = H.Z0; p_node_deposit = (H.N0, H.Z0); p_node_active = H.Z0;
  p_max_gb = H.coins_of []; p_min_gb = H.coins_of []; p_max_hr = H.coins_of []; p_min_hr = H.coins_of [];
  p_max_sub_gb = H.Z0; p_min_sub_gb = H.Z0; p_max_sub_hr = H.Z0; p_min_sub_hr = H.Z0; p_node_share = H.Z0;
  p_sub_delay = H.Z0; p_sess_delay = H.Z0; p_sess_proof = false; p_swap_enabled = false; p_swap_denom = H.N0;
  p_swap_approver = dummy_taddr }

let params_of_tokens (kv : (string * string) list) : H.params =
  (* reuse the model's own parameter update function on a scratch state *)
  let cfg0 = { H.c_deposit = []; c_feecoll = []; c_distr = []; c_swap = []; c_blocked = [] } in
  let s0 = H.empty_state cfg0 default_params in
  match H.step s0 (H.OGov (List.map (fun (k, v) -> parse_pchange k v) kv)) with
  | H.OOk s -> s.H.pars
  | _ -> failwith "params"

let run_pure file =
  let ic = open_in file in
  let show = function H.Ok z -> zs z | H.Err -> "err" | H.Panic -> "panic" in
  (try
    while true do
      let line = String.trim (input_line ic) in
      let t = Array.of_list (String.split_on_char ' ' line) in
      let r = match t.(0) with
        | "afb" -> show (H.amount_for_bytes (hz t.(1)) (hz t.(2)))
        | "prop" -> show (H.proportion (hz t.(1)) (hz t.(2)))
        | "ceil" -> show (H.ceil_to1 (hz t.(1)) (hz t.(2)))
        | k -> failwith ("pure kind " ^ k) in
      Printf.printf "%s %s %s = %s\n" t.(0) t.(1) t.(2) r
    done
  with End_of_file -> ());
  close_in ic

let () =
  if Array.length Sys.argv > 2 && Sys.argv.(1) = "--pure" then (run_pure Sys.argv.(2); exit 0);
  let ops_file = Sys.argv.(1) in
  let ic = open_in ops_file in
  let out = stdout in
  let g = { cfg = None; bals = []; pars = None; infl = []; mint = (H.Z0, H.Z0, H.Z0, H.Z0); time = H.Z0 } in
  let st : H.state option ref = ref None in
  let hist = ref 0 and idx = ref 0 and halted = ref false in
  (* dom: the history so far lies inside the configuration domain of DESIGN section 5 (Model/Domain.v) *)
  let dom = ref true in
  let emit kind res (s : H.state option) =
    let fields = ["h", string_of_int !hist; "i", string_of_int !idx; "op", q kind; "res", q res; "dom", jb !dom] in
    let fields = match s with
      | Some s -> fields @ ["st", jstate s; "ev", arr (List.map jev s.H.events)]
      | None -> fields @ ["ev", "[]"] in
    output_string out (obj fields); output_char out '\n'; incr idx in
  (try
    while true do
      let line = String.trim (input_line ic) in
      if line <> "" && line.[0] <> '#' then begin
        let toks = Array.of_list (List.filter (fun x -> x <> "") (String.split_on_char ' ' line)) in
        match toks.(0) with
        | "H" ->
            hist := int_of_string toks.(1); idx := 0; halted := false; st := None; dom := true;
            g.cfg <- None; g.bals <- []; g.pars <- None; g.infl <- []; g.time <- H.Z0
        | "G" ->
            (match toks.(1) with
             | "cfg" ->
                 let b = if Array.length toks > 6 then List.map bytes_of_hex (split_on ',' toks.(6)) else [] in
                 g.cfg <- Some { H.c_deposit = bytes_of_hex toks.(2); c_feecoll = bytes_of_hex toks.(3);
                                 c_distr = bytes_of_hex toks.(4); c_swap = bytes_of_hex toks.(5); c_blocked = b }
             | "bal" -> g.bals <- g.bals @ [ (bytes_of_hex toks.(2), (hn_of_int (int_of_string toks.(3)), hz toks.(4))) ]
             | "acc" -> ()
             | "par" -> g.pars <- Some (params_of_tokens (pairs (List.tl (List.tl (Array.to_list toks)))))
             | "infl" -> g.infl <- g.infl @ [ { H.inf_max = hz toks.(2); inf_min = hz toks.(3); inf_rate = hz toks.(4); inf_ts = hz toks.(5) } ]
             | "mint" -> g.mint <- (hz toks.(2), hz toks.(3), hz toks.(4), hz toks.(5))
             | "time" -> g.time <- hz toks.(2)
             | "go" ->
                 let (a, b, c, d) = g.mint in
                 let gen = { H.g_cfg = Option.get g.cfg; g_balances = g.bals; g_params = Option.get g.pars;
                             g_inflations = g.infl; g_mint = (((a, b), c), d); g_time = g.time } in
                 let s = H.init gen in
                 if not (H.wf_genesis_b gen) then dom := false;
                 st := Some s; emit "G" "ok" (Some s)
             | _ -> failwith "bad G line")
        | "X" when not !halted ->
            (* export point: validate(export s), import(export s); the history goes on from s *)
            let s = Option.get !st in
            (match H.genesis_roundtrip s with
             | Some (ok, s') -> emit "X" (if ok then "ok" else "rej") (Some s')
             | None -> emit "X" "halt" None)
        | k when not !halted ->
            let s = Option.get !st in
            let o = match k with
              | "B" -> H.OBegin (hz toks.(1))
              | "E" -> H.OEnd
              | "V" -> H.OGov (List.map (fun (k, v) -> parse_pchange k v) (pairs (List.tl (Array.to_list toks))))
              | "T" -> H.OTx (parse_msg (Array.sub toks 1 (Array.length toks - 1)))
              | _ -> failwith ("bad op " ^ k) in
            if not (H.wf_op_c03_b s o) then dom := false;
            (match H.step s o with
             | H.OOk s' -> st := Some s'; emit k "ok" (Some s')
             | H.ORejected -> emit k "rej" None
             | H.OHalt -> halted := true; emit k "halt" None)
        | _ -> ()
      end
    done
  with End_of_file -> ());
  close_in ic
