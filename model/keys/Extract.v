(* Extraction of the key / address model (C17) to OCaml.  ExtrOcamlBasic only. *)
From Coq Require Import Extraction ExtrOcamlBasic.
From Hub Require Import Base.Prelude Base.Bytes Base.Time Base.Bech32 Gen.KeysGen.
Extraction Language OCaml.
Set Warnings "-extraction-opaque-accessed".
Definition model_addr_to_text := addr_to_text hrp_of.
Definition model_addr_from_text := addr_from_text hrp_of.
Extraction "keys_model.ml" gen_prefix_table gen_ctor_table gen_dec_u64_table gen_dec_bytes_table gen_store_table
  bytes_cmp time_ok model_addr_to_text model_addr_from_text.
