#!/bin/sh
# build the model runner keys_run from the compiled Coq theories (COQ = directory holding theories/)
set -e
cd "$(dirname "$0")"
COQ="${COQ:-../../coq}"
coqc -Q "$COQ/theories" Hub Extract.v
ocamlfind ocamlopt -O2 -package zarith -linkpkg -w -a keys_model.mli keys_model.ml driver.ml -o keys_run 2>/dev/null || \
ocamlfind ocamlopt -package zarith -linkpkg -w -a keys_model.mli keys_model.ml driver.ml -o keys_run
